#!/venv/bin/python
# MANIFEST.setup_cmd: offline bootstrap.  Installs jsonschema (pure wheels from the
# offline wheelhouse) next to /venv's packages under /verif/.deps if missing,
# and checks that the interpreters the checks need are present.
import importlib
import os
import subprocess
import sys

ROOT = os.path.dirname(os.path.abspath(__file__))
DEPS = os.path.join(ROOT, ".deps")
sys.path.append(DEPS)
sys.path.insert(0, os.path.join(ROOT, "harness"))


def have(m):
    try:
        importlib.import_module(m)
        return True
    except ImportError:
        return False


need = [m for m in ("hypothesis", "jsonschema") if not have(m)]
if need:
    os.makedirs(DEPS, exist_ok=True)
    subprocess.call([sys.executable, "-m", "pip", "install", "--quiet", "--no-index", "--find-links",
                     "/opt/veriftools/wheels", "--target", DEPS] + need)
import pool
found = pool.discover()
print("interpreters:", found)
missing = [v for v in pool.TARGETS if v not in found]
if missing:
    print("WARNING: target interpreters missing:", missing)
sys.exit(0 if any(v in found for v in pool.TARGETS) else 2)
