# Ops over compiled programs: C01 C02 C04 C05(symbolic) C09 C13 C14.
# Python 3.7 syntax, stdlib only.
import collections
import dataclasses
import inspect
import opcode
import sys
import types

import refs
from ops import Reject, Verdict, compile_case, exc_detail, exc_sig, lib, op

CodeType = types.CodeType
V = sys.version_info[:2]


def _program_features(code, v):
    """aggregate raw-object features over all nested code objects"""
    n = 0
    agg = {"njump": 0, "nested": 0, "nent": 0, "ninstr": 0}
    for _p, c in refs.walk_codes(code):
        n += 1
        r = refs.code_features(c, v.features)
        for k in agg:
            agg[k] = max(agg[k], r[k]) if k == "nent" else agg[k] + r[k]
    v.features["code_objects"] += n
    v.info["ncode"] = n
    return agg


def _self_check(code):
    for _p, c in refs.walk_codes(code):
        refs.check_units_against_dis(c, refs.units(c.co_code))


# ------------------------------------------------------------------ C01
@op("c01")
def op_c01(args):
    code = compile_case(args["case"])
    v = Verdict()
    agg = _program_features(code, v)
    CodeData = lib().CodeData
    try:
        cd = CodeData.from_code(code)
    except Exception as e:
        # attribute to the innermost code object that fails on its own
        where = code.co_name
        for p, c in list(refs.walk_codes(code))[::-1]:
            try:
                CodeData.from_code(c)
            except Exception as e2:
                if exc_sig(e2) == exc_sig(e):
                    where = p
                    break
        v.violate("from_code_raises", exc_sig(e), "%s in %s" % (exc_detail(e), where))
        cd = None
    if cd is not None:
        try:
            r = cd.to_code()
        except Exception as e:
            v.violate("to_code_raises", exc_sig(e), exc_detail(e))
            r = None
        if r is not None:
            if not isinstance(r, CodeType):
                v.violate("to_code_type", type(r).__name__)
            else:
                seen = set()
                for path, field, detail in refs.ident_diff(code, r, nan_bits=True):
                    if field == "co_lnotab":
                        field = _classify_lnotab_diff(code, r, path)
                    if field in seen:
                        continue
                    seen.add(field)
                    v.violate("field_differs", field, "%s: %s" % (path, detail))
    # twin compile: the same source under another file name gives code objects that compare
    # equal (code equality ignores co_filename) but are not the same; decoding one must not
    # be influenced by having decoded the other
    if agg["nested"] and cd is not None and "src" in args["case"] and not v.violations:
        twin = dict(args["case"])
        twin["filename"] = (twin.get("filename") or "<verif>") + ".twin"
        try:
            code2 = compile_case(twin)
            r2 = CodeData.from_code(code2).to_code()
            for path, field, detail in refs.ident_diff(code2, r2, nan_bits=True, limit=3):
                if field == "co_lnotab":
                    field = _classify_lnotab_diff(code2, r2, path)
                v.violate("field_differs_after_lookalike", field, "same source compiled under a second file name: %s: %s" % (path, detail))
                break
            v.features["twin_compiles"] += 1
        except Reject:
            pass
        except Exception as e:
            v.violate("from_code_raises", exc_sig(e), "twin compile: " + exc_detail(e))
    # look-alike in the same file: only the line table differs (every line one further down) while
    # the original code object is still alive
    if cd is not None and not v.violations:
        try:
            look = lookalike(code, keep_filename=True)
        except (ValueError, TypeError):
            look = None
        if look is not None:
            try:
                r3 = CodeData.from_code(look).to_code()
                for path, field, detail in refs.ident_diff(look, r3, nan_bits=True, limit=3):
                    if field == "co_lnotab":
                        field = _classify_lnotab_diff(look, r3, path)
                    v.violate("field_differs_after_lookalike", field, "same code with every line moved by one, same file: %s: %s" % (path, detail))
                    break
                v.features["lookalike_same_file_decodes"] += 1
            except Exception as e:
                v.violate("from_code_raises", exc_sig(e), "line-shifted look-alike: " + exc_detail(e))
    v.info["nontrivial"] = bool(agg["nested"] or agg["njump"] or agg["nent"] >= 2)
    return v.result()


def _find_pair(a, b, path):
    """the pair of code objects at `path` (as produced by refs.walk_codes)"""
    for (p, x), (q, y) in zip(refs.walk_codes(a), refs.walk_codes(b)):
        if p == path:
            return x, y
    return None, None


def mid_instruction_entries(c):
    """<=3.9: addresses of lnotab entries that fall strictly inside a multi-unit
    instruction (left there by the peephole optimizer's per-code-unit remap)."""
    inner = {}
    for first, off, opc, arg in refs.units(c.co_code):
        for o in range(first + 2, off + 2, 2):
            inner[o] = first
    out = []
    addr = 0
    tab = c.co_lnotab
    for i in range(0, len(tab), 2):
        addr += tab[i]
        if addr in inner:
            out.append(addr)
    return out, inner


def _classify_lnotab_diff(code, r, path):
    """co_lnotab differs: is the whole difference explained by entries that sit
    inside an instruction (known finding) -- i.e. same line at the first unit of
    every instruction, and lines differ only at units of instructions that
    contain such an entry?"""
    try:
        x, y = _find_pair(code, r, path)
        if x is None or x.co_code != y.co_code:
            return "co_lnotab"
        mids, inner = mid_instruction_entries(x)
        if not mids:
            return "co_lnotab"
        affected = set(inner[a] for a in mids)
        for first, off, opc, arg in refs.units(x.co_code):
            if refs.addr2line(x, first) != refs.addr2line(y, first):
                return "co_lnotab"
            if first not in affected:
                for o in range(first, off + 2, 2):
                    if refs.addr2line(x, o) != refs.addr2line(y, o):
                        return "co_lnotab"
        # a moved entry lands on the next instruction's start, where it can merge with, or cancel
        # against, that instruction's own entries (all pieces of a split delta included): the table
        # may lose at most the entries that sit inside an affected instruction or at the start of
        # the instruction after it; it never gains entries
        nxt = {}
        for first, off, opc, arg in refs.units(x.co_code):
            if first in affected:
                nxt[first] = off + 2
        addr = 0
        mergeable = 0
        for i in range(0, len(x.co_lnotab), 2):
            addr += x.co_lnotab[i]
            if any(f < addr <= n for f, n in nxt.items()):
                mergeable += 1
        if not (0 <= len(x.co_lnotab) - len(y.co_lnotab) <= 2 * mergeable):
            return "co_lnotab"
        return "co_lnotab:mid_instruction_entry"
    except Exception:
        return "co_lnotab"


# ------------------------------------------------------------------ helpers for decoded views
def _flatten(cd):
    out = []
    starts = []
    for blk in cd.blocks:
        starts.append(len(out))
        out.extend(blk)
    return out, starts


def _decode_each(code, v, want_all=True):
    """yield (path, code, CodeData) for each nested code object; a from_code
    failure is not this property's business (C01 reports it): counted, skipped."""
    CodeData = lib().CodeData
    for p, c in refs.walk_codes(code):
        try:
            cd = CodeData.from_code(c)
        except Exception as e:
            v.features["skipped_from_code_raises"] += 1
            v.info.setdefault("skipped", []).append(exc_sig(e))
            continue
        yield p, c, cd


# ------------------------------------------------------------------ C02
_POISON = None


def _get_code(args, v):
    """compiled program; optionally re-serialized by R-ASM (denser prefix / table shapes than
    compilers emit) or the encoding of a hand-built CodeData (denser jump graphs)"""
    if args.get("spec") is not None:
        import ops_build
        try:
            code = ops_build.build_code_data(args["spec"])[0].to_code()
        except Exception as e:
            raise Reject("hand-built spec does not encode (C03's business): %s" % exc_sig(e))
        v.features["input_hand_built_encoding"] += 1
        return code
    code = compile_case(args["case"])
    if args.get("recipe"):
        import ops_build
        code = ops_build.make_variant(code, args["recipe"])
        v.features["input_rasm_variant"] += 1
    if args.get("poison"):
        # injected fault: a decode that raises half-way (a code object whose constant / name tables
        # were emptied) must leave nothing behind that changes the next decode
        from ops_const import code_replace
        # (a) the case's own code object, broken early and late; (b) a DIFFERENT code object with jumps to
        # many offsets, broken so that it fails at its last constant load (after its jumps were decoded):
        # whatever that decode leaves behind has other offsets than the case's own jumps
        global _POISON
        if _POISON is None:
            src = "while a:\n    if b:\n        c\n    elif d:\n        e = [i for i in f if i]\n    else:\n        g\n    try:\n        h\n    except E:\n        pass\nk = 'last'\n"
            pc = compile(src, "<poison>", "exec")
            _POISON = [code_replace(pc, co_consts=pc.co_consts[:-1]), code_replace(pc, co_names=pc.co_names[:-1])]
        broken = [code_replace(code, **kw) for kw in ({"co_varnames": (), "co_nlocals": 0}, {"co_names": code.co_names[:-1]},
                                                      {"co_consts": code.co_consts[:-1]})]
        for bad in broken + _POISON[args.get("poison_pick", 0) % 2:][:1]:
            try:
                lib().CodeData.from_code(bad)
            except Exception:
                v.features["poison_decode_raised"] += 1
            else:
                v.features["poison_decode_returned"] += 1
    return code


def lookalike(code, shift=1, keep_filename=False):
    """a code object that compares equal to `code` under code.__eq__ on 3.7-3.10 (which ignores the
    line table, the file name and the stack size) but whose lines are all shifted: decoding it after
    `code` must describe IT, not a remembered decode of the other one"""
    from ops_const import code_replace
    consts = tuple(lookalike(k, shift, keep_filename) if isinstance(k, CodeType) else k for k in code.co_consts)
    kw = {"co_consts": consts}
    if not keep_filename:
        # keep_filename: ONLY the line table differs (a memo keyed on code equality + file name)
        kw["co_filename"] = code.co_filename + ".look"
    if refs.AT310:
        t = code.co_linetable
        # first entry with a line: bump its delta
        for i in range(0, len(t), 2):
            d = t[i + 1]
            d = d - 256 if d >= 128 else d
            if d != -128 and -120 < d < 120:
                kw["co_linetable"] = t[:i + 1] + bytes([(d + shift) & 255]) + t[i + 2:]
                break
    else:
        kw["co_lnotab"] = bytes([0, shift]) + code.co_lnotab
    return code_replace(code, **kw)


@op("c02")
def op_c02(args):
    v = Verdict()
    code = _get_code(args, v)
    _self_check(code)
    _program_features(code, v)
    nontrivial = _c02_compare(code, v, "")
    if not v.violations:
        # same-file look-alike first: a later decode of an other-file look-alike may overwrite a memo entry
        try:
            look2 = lookalike(code, keep_filename=True)
        except (ValueError, TypeError):
            look2 = None
        if look2 is not None:
            v.features["lookalike_same_file_decodes"] += 1
            _c02_compare(look2, v, "look-alike (same file, other line table) decoded while the original is alive: ")
        try:
            look = lookalike(code)
        except (ValueError, TypeError):
            look = None
        if look is not None and not v.violations:
            v.features["lookalike_decodes"] += 1
            _c02_compare(look, v, "look-alike decoded after the original: ")
    v.info["nontrivial"] = nontrivial
    return v.result()


def _c02_compare(code, v0, prefix):
    L = lib()
    nontrivial = False
    v = v0 if not prefix else Verdict()
    for path, c, cd in _decode_each(code, v):
        us = refs.units(c.co_code)
        flat, bstarts = _flatten(cd)
        if len(flat) != len(us):
            v.violate("instr_count", "len", "%s: %d decoded vs %d by CPython" % (path, len(flat), len(us)))
            continue
        lm = refs.line_map(c)
        first_to_idx = {u[0]: i for i, u in enumerate(us)}
        ncell = len(c.co_cellvars)
        lines = set()
        njump = 0
        for i, (ins, (first, off, opc, arg)) in enumerate(zip(flat, us)):
            name = opcode.opname[opc]
            a = ins.arg
            if ins.name != name:
                v.violate("opname", "differs", "%s #%d %s vs %s" % (path, i, ins.name, name))
                continue
            exp_line = lm[first]
            lines.add(exp_line)
            if ins.line_number != exp_line:
                v.violate("line", "none" if (ins.line_number is None or exp_line is None) else "value",
                          "%s #%d %s: decoded %r, CPython %r" % (path, i, name, ins.line_number, exp_line))
            if opc in refs.HASJABS or opc in refs.HASJREL:
                njump += 1
                if not isinstance(a, L.Jump):
                    v.violate("operand_class", "jump", "%s #%d %s -> %r" % (path, i, name, a))
                    continue
                if bool(a.relative) != (opc in refs.HASJREL):
                    v.violate("jump_kind", "relative_flag", "%s #%d %s relative=%r" % (path, i, name, a.relative))
                dest = refs.jump_dest(opc, arg, off)
                if not isinstance(a.target, int) or not (0 <= a.target < len(bstarts)):
                    v.violate("jump_target", "range", "%s #%d target %r" % (path, i, a.target))
                elif first_to_idx.get(dest) != bstarts[a.target]:
                    v.violate("jump_target", "wrong_block",
                              "%s #%d %s: block %d starts at instr %d, CPython jumps to offset %d (instr %r)"
                              % (path, i, name, a.target, bstarts[a.target], dest, first_to_idx.get(dest)))
            elif opc in refs.HASNAME:
                if not isinstance(a, L.Name) or a.name != c.co_names[arg] or type(a.name) is not str:
                    v.violate("operand", "name", "%s #%d %s %r vs %r" % (path, i, name, a, c.co_names[arg]))
            elif opc in refs.HASLOCAL:
                if not isinstance(a, L.Varname) or a.varname != c.co_varnames[arg]:
                    v.violate("operand", "local", "%s #%d %s %r vs %r" % (path, i, name, a, c.co_varnames[arg]))
            elif opc in refs.HASFREE:
                if arg < ncell:
                    if not isinstance(a, L.Cellvar) or a.cellvar != c.co_cellvars[arg]:
                        v.violate("operand", "cell", "%s #%d %s %r vs cell %r" % (path, i, name, a, c.co_cellvars[arg]))
                else:
                    if not isinstance(a, L.Freevar) or a.freevar != c.co_freevars[arg - ncell]:
                        v.violate("operand", "free", "%s #%d %s %r vs free %r" % (path, i, name, a, c.co_freevars[arg - ncell]))
            elif opc in refs.HASCONST:
                k = c.co_consts[arg]
                if not isinstance(a, L.Constant):
                    v.violate("operand_class", "const", "%s #%d %s %r" % (path, i, name, a))
                elif isinstance(k, CodeType):
                    try:
                        ok = isinstance(a.constant, L.CodeData) and a.constant == L.CodeData.from_code(k)
                    except Exception:
                        ok = True  # from_code failure: C01's business
                    if not ok:
                        v.violate("operand", "nested_code", "%s #%d %s nested %s" % (path, i, name, k.co_name))
                elif isinstance(a.constant, L.CodeData) or refs.ckey(a.constant) != refs.ckey(k):
                    v.violate("operand", "const", "%s #%d %s %r vs %r" % (path, i, name, a.constant, k))
            elif opc < opcode.HAVE_ARGUMENT:
                if not isinstance(a, L.NoArg):
                    v.violate("operand_class", "noarg", "%s #%d %s %r" % (path, i, name, a))
            else:
                if type(a) is not int or a != arg:
                    v.violate("operand", "int", "%s #%d %s %r vs %r" % (path, i, name, a, arg))
        if njump and len(lines) >= 2:
            nontrivial = True
    if prefix:
        for viol in v.violations[:3]:
            v0.violate(viol["kind"] + "_after_lookalike", viol["sub"], prefix + viol["detail"])
    return nontrivial


# ------------------------------------------------------------------ C13
@op("c13")
def op_c13(args):
    v = Verdict()
    code = _get_code(args, v)
    return c13_check(code, v)


def c13_check(code, v=None):
    v = v or Verdict()
    _self_check(code)
    _program_features(code, v)
    L = lib()
    nontrivial = False
    for path, c, cd in _decode_each(code, v):
        us = refs.units(c.co_code)
        first_to_idx = {u[0]: i for i, u in enumerate(us)}
        T = {0}
        dest_count = collections.Counter()
        for first, off, opc, arg in us:
            d = refs.jump_dest(opc, arg, off)
            if d is not None:
                T.add(d)
                dest_count[d] += 1
                if d == 0:
                    v.features["jump_to_offset0"] += 1
        bad = [d for d in T if d not in first_to_idx]
        if bad:
            # compiler output never does this; outside the property's domain
            v.features["jump_into_instruction"] += 1
            continue
        if any(first_to_idx[d] < len(us) and us[first_to_idx[d]][0] != us[first_to_idx[d]][1] for d in T):
            v.features["jump_to_prefixed_instruction"] += 1
        if any(n > 1 for n in dest_count.values()):
            v.features["shared_jump_target"] += 1
        blocks = cd.blocks
        if not isinstance(blocks, tuple) or not blocks:
            v.violate("blocks", "empty_or_type", "%s: %r" % (path, type(blocks)))
            continue
        if any(len(b) == 0 for b in blocks):
            v.violate("block_empty", "empty", path)
        flat, bstarts = _flatten(cd)
        if len(flat) != len(us) or any(i.name != opcode.opname[u[2]] for i, u in zip(flat, us)):
            v.violate("partition", "not_in_order", "%s: %d vs %d instructions" % (path, len(flat), len(us)))
            continue
        expect = sorted(first_to_idx[d] for d in T)
        got = [s for s, b in zip(bstarts, blocks) if len(b)]
        if got != expect:
            extra = sorted(set(got) - set(expect))
            missing = sorted(set(expect) - set(got))
            v.violate("block_starts", "extra" if extra and not missing else ("missing" if missing and not extra else "both"),
                      "%s: extra starts %r missing %r" % (path, extra[:5], missing[:5]))
        targeted = set()
        for ins in flat:
            a = ins.arg
            if isinstance(a, L.Jump):
                if type(a.target) is not int or not (0 <= a.target < len(blocks)):
                    v.violate("jump_target", "range", "%s: %r" % (path, a))
                else:
                    targeted.add(a.target)
        untargeted = [i for i in range(1, len(blocks)) if i not in targeted]
        if untargeted:
            v.violate("block_untargeted", "no_jump", "%s: blocks %r" % (path, untargeted[:5]))
        if len(blocks) >= 3:
            nontrivial = True
    v.info["nontrivial"] = nontrivial
    return v.result()


# ------------------------------------------------------------------ C14
@op("c14")
def op_c14(args):
    code = compile_case(args["case"])
    v = Verdict()
    agg = _program_features(code, v)
    L = lib()
    try:
        top = L.CodeData.from_code(code)
    except Exception as e:
        v.features["skipped_from_code_raises"] += 1
        v.info["nontrivial"] = False
        return v.result()
    depth2 = 0
    # each code object: direct children
    allc = list(refs.walk_codes(code))
    if len(allc) > 400:
        raise Reject("too many code objects for the O(n^2) matcher")
    decoded = {}
    for p, c in allc:
        try:
            decoded[id(c)] = L.CodeData.from_code(c)
        except Exception:
            v.features["skipped_from_code_raises"] += 1
            v.info["nontrivial"] = False
            return v.result()
    for p, c in allc:
        cd = decoded[id(c)]
        kids = [decoded[id(k)] for k in c.co_consts if isinstance(k, CodeType)]
        if p.count("/") >= 2:
            depth2 += 1
        try:
            got = list(cd)
        except Exception as e:
            v.violate("iter_raises", exc_sig(e), exc_detail(e))
            continue
        miss, extra = _multiset_diff(kids, got)
        if miss or extra:
            v.violate("iter", "missing" if miss and not extra else ("extra" if extra and not miss else "both"),
                      "%s: %d direct children, iteration gave %d; missing %r extra %r"
                      % (p, len(kids), len(got), [m.name for m in miss][:4], [m.name for m in extra][:4]))
    want = [decoded[id(c)] for p, c in allc]
    try:
        got = list(top.all_code_data())
    except Exception as e:
        v.violate("all_code_data_raises", exc_sig(e), exc_detail(e))
        got = None
    if got is not None:
        if not got or got[0] is not top and got[0] != top:
            v.violate("all_code_data", "first_not_self", "")
        miss, extra = _multiset_diff(want, got)
        if miss or extra:
            v.violate("all_code_data", "missing" if miss and not extra else ("extra" if extra and not miss else "both"),
                      "%d code objects, all_code_data gave %d; missing %r extra %r"
                      % (len(want), len(got), [m.name for m in miss][:4], [m.name for m in extra][:4]))
    v.info["nontrivial"] = bool((agg["nested"] >= 2 and depth2 >= 1) or v.features.get("unref_nested_code"))
    return v.result()


def _multiset_diff(want, got):
    """match by == (position first, then search); returns (missing, extra)"""
    want = list(want)
    got = list(got)
    rest_w = []
    rest_g = []
    n = min(len(want), len(got))
    for i in range(n):
        if want[i] is got[i] or want[i] == got[i]:
            continue
        rest_w.append(want[i])
        rest_g.append(got[i])
    rest_w.extend(want[n:])
    rest_g.extend(got[n:])
    missing = []
    for w in rest_w:
        for j, g in enumerate(rest_g):
            if w == g:
                del rest_g[j]
                break
        else:
            missing.append(w)
    return missing, rest_g


# ------------------------------------------------------------------ C04
_KINDS = {
    inspect.Parameter.POSITIONAL_ONLY: "POSITIONAL_ONLY",
    inspect.Parameter.POSITIONAL_OR_KEYWORD: "POSITIONAL_OR_KEYWORD",
    inspect.Parameter.VAR_POSITIONAL: "VAR_POSITIONAL",
    inspect.Parameter.KEYWORD_ONLY: "KEYWORD_ONLY",
    inspect.Parameter.VAR_KEYWORD: "VAR_KEYWORD",
}


def _make_cell():
    x = 0
    return (lambda: x).__closure__[0]


@op("c04")
def op_c04(args):
    code = compile_case(args["case"])
    v = Verdict()
    c04_check(code, v)
    return v.result()


def c04_check(code, v):
    L = lib()
    nontrivial = 0
    for path, c, cd in _decode_each(code, v):
        v.features["code_objects"] += 1
        if not refs.is_function_like(c):
            if c.co_flags & (refs.CO_OPTIMIZED | refs.CO_NEWLOCALS):
                # class bodies have NEWLOCALS only: from_code raises (C11 domain)
                v.features["one_fn_flag"] += 1
            v.features["non_function"] += 1
            if cd.type is not None:
                v.violate("type", "module_or_class_not_none", "%s: %r" % (path, cd.type))
            continue
        fn = cd.type
        if not isinstance(fn, L.Function):
            v.violate("type", "function_missing", "%s: %r" % (path, fn))
            continue
        hdr = refs.code_header(c)
        try:
            got = [(n, _KINDS[k]) for n, k in fn.args.parameters.items()]
            ln = len(fn.args)
        except Exception as e:
            v.violate("parameters_raises", exc_sig(e), exc_detail(e))
            continue
        f = types.FunctionType(c, {}, c.co_name, None, tuple(_make_cell() for _ in c.co_freevars))
        dotted = any(n.startswith(".") for n, _k in hdr["params"])
        if not dotted:
            sig = [(p.name, _KINDS[p.kind]) for p in inspect.signature(f).parameters.values()]
            if sig != hdr["params"]:
                raise refs.HarnessError("header reading disagrees with inspect: %r %r" % (sig, hdr["params"]))
        else:
            v.features["implicit_dot_param"] += 1
        if got != hdr["params"]:
            sub = "names" if [g[0] for g in got] != [h[0] for h in hdr["params"]] else "kinds"
            v.violate("signature", sub, "%s: decoded %r, CPython %r" % (path, got, hdr["params"]))
        if ln != len(hdr["params"]):
            v.violate("signature", "len", "%s: len(args)=%r, CPython %d" % (path, ln, len(hdr["params"])))
        # a caller editing the mapping it was handed must not change what a fresh decode of the same code says
        if hdr["params"] and not v.violations:
            try:
                m = fn.args.parameters
                if hasattr(m, "popitem"):
                    m.popitem()
                fresh = L.CodeData.from_code(c).type.args
                got2 = [(n, _KINDS[k]) for n, k in fresh.parameters.items()]
                if got2 != hdr["params"] or len(fresh) != len(hdr["params"]):
                    v.violate("signature", "after_caller_edit", "%s: after popitem() on a returned parameters mapping a FRESH decode gives %r (len %r), CPython %r"
                              % (path, got2, len(fresh), hdr["params"]))
                v.features["fresh_decode_after_mapping_edit"] += 1
            except (TypeError, AttributeError):
                pass  # read-only mapping: nothing to edit
        doc = f.__doc__
        if fn.docstring != doc or type(fn.docstring) is not type(doc):
            v.violate("docstring", "differs", "%s: decoded %r, __doc__ %r" % (path, fn.docstring, doc))
        if inspect.isgeneratorfunction(f):
            kind = "GENERATOR"
        elif inspect.iscoroutinefunction(f):
            kind = "COROUTINE"
        elif inspect.isasyncgenfunction(f):
            kind = "ASYNC_GENERATOR"
        else:
            kind = None
        if fn.type != kind:
            v.violate("fn_type", "differs", "%s: decoded %r, inspect %r" % (path, fn.type, kind))
        kinds = set(k for _n, k in hdr["params"])
        for k in kinds:
            v.features["param_" + k] += 1
        if kind:
            v.features["kind_" + kind] += 1
        if doc is not None:
            v.features["has_docstring"] += 1
        if len(kinds) >= 2 or doc is not None or kind is not None:
            nontrivial += 1
        v.info.setdefault("shapes", [])
        if len(v.info["shapes"]) < 50:
            v.info["shapes"].append("%s|%s|%s" % (",".join(k[:5] for _n, k in hdr["params"]), kind, doc is not None))
    v.info["nontrivial"] = nontrivial > 0
    return v


# ------------------------------------------------------------------ C05 (symbolic part)
@op("c05")
def op_c05(args):
    code = compile_case(args["case"])
    v = Verdict()
    c05_symbolic(code, v)
    return v.result()


def _unused_cells(c):
    used = set()
    for first, off, opc, arg in refs.units(c.co_code):
        if opc in refs.HASFREE:
            used.add(arg)
    return [i for i in range(len(c.co_cellvars)) if i not in used]


def c05_symbolic(code, v):
    _self_check(code)
    _program_features(code, v)
    L = lib()
    try:
        cd = L.CodeData.from_code(code)
    except Exception:
        v.features["skipped_from_code_raises"] += 1
        v.info["nontrivial"] = False
        return None
    try:
        n = cd.normalize().to_code()
    except Exception as e:
        v.violate("normalize_to_code_raises", exc_sig(e), exc_detail(e))
        v.info["nontrivial"] = False
        return None
    changed = False
    sa = refs.sym(code)
    sb = refs.sym(n)
    # allowed flag differences: NESTED always; NOFREE handled per code object below
    diffs = refs.sym_diff(sa, sb, flag_mask=refs.CO_NESTED | refs.CO_NOFREE)
    seen = set()
    if any(f == "line_opcode_unit" for _p, f, _d in diffs) and not refs.AT310:
        # the known <=3.9 finding: an lnotab entry inside an instruction is moved; classify it
        # (only when every code object with such a difference really has such an entry)
        with_mid = set(c.co_name for p, c in refs.walk_codes(code) if mid_instruction_entries(c)[0])
        diffs = [(p, "line_opcode_unit:mid_instruction_entry" if (f == "line_opcode_unit" and p.split("/")[-1] in with_mid) else f, d)
                 for p, f, d in diffs]
    for path, field, detail in diffs:
        if field in seen:
            continue
        seen.add(field)
        v.violate("symbolic", field, "%s: %s" % (path, detail))
    if not diffs:
        # NOFREE may differ only when an unused cell variable disappeared
        for (p, a), (_q, b) in zip(_walk_sym_codes(code), _walk_sym_codes(n)):
            fa, fb = a.co_flags, b.co_flags
            if (fa ^ fb) & refs.CO_NOFREE:
                ok = (not (fa & refs.CO_NOFREE)) and (fb & refs.CO_NOFREE) and _unused_cells(a) \
                    and not b.co_cellvars and not b.co_freevars
                if not ok:
                    v.violate("symbolic", "flags_nofree", "%s: %#x -> %#x" % (p, fa, fb))
            raw_same = all(getattr(a, k) == getattr(b, k) for k in refs.CO_ATTRS)
            if not raw_same or a.co_consts != b.co_consts:
                changed = True
    v.info["nontrivial"] = changed
    return n


def _walk_sym_codes(code):
    """walk nested code objects in order of *reference by instructions* so that
    two codes with differently ordered tables are walked in parallel."""
    yield code.co_name, code
    for first, off, opc, arg in refs.units(code.co_code):
        if opc in refs.HASCONST:
            k = code.co_consts[arg]
            if isinstance(k, CodeType):
                for x in _walk_sym_codes(k):
                    yield x


# ------------------------------------------------------------------ C09
def _first_use_ranks(c):
    """per table: {position: rank} with parameters / docstring first, then first
    reference order, then unreferenced entries in table order."""
    hdr = refs.code_header(c)
    order = {"name": [], "local": list(range(hdr["nparams"])), "cell": [], "const": []}
    if refs.is_function_like(c) and c.co_consts and type(c.co_consts[0]) is str:
        order["const"].append(0)
    seen = {k: set(val) for k, val in order.items()}
    ncell = len(c.co_cellvars)
    for first, off, opc, arg in refs.units(c.co_code):
        if opc in refs.HASNAME:
            t = "name"
        elif opc in refs.HASLOCAL:
            t = "local"
        elif opc in refs.HASFREE:
            if arg >= ncell:
                continue
            t = "cell"
        elif opc in refs.HASCONST:
            t = "const"
        else:
            continue
        if arg not in seen[t]:
            seen[t].add(arg)
            order[t].append(arg)
    sizes = {"name": len(c.co_names), "local": len(c.co_varnames), "cell": ncell, "const": len(c.co_consts)}
    ranks = {}
    unref = {}
    for t in order:
        unref[t] = [i for i in range(sizes[t]) if i not in seen[t]]
        full = order[t] + unref[t]
        ranks[t] = {pos: r for r, pos in enumerate(full)}
    return ranks, unref, sizes


def _arg_table(L, a):
    if isinstance(a, L.Name):
        return "name", a.name
    if isinstance(a, L.Varname):
        return "local", a.varname
    if isinstance(a, L.Cellvar):
        return "cell", a.cellvar
    if isinstance(a, L.Constant):
        return "const", a.constant
    return None, None


def _clear_override(L, cd, table, position):
    """dataclasses.replace: clear _index_override on all uses of (table, position)"""
    def fix(a):
        t, _val = _arg_table(L, a)
        if t == table and a._index_override == position:
            return dataclasses.replace(a, _index_override=None)
        return a
    blocks = tuple(tuple(dataclasses.replace(i, arg=fix(i.arg)) for i in b) for b in cd.blocks)
    extra = tuple(fix(a) for a in cd._additional_args)
    return dataclasses.replace(cd, blocks=blocks, _additional_args=extra)


@op("c09")
def op_c09(args):
    code = compile_case(args["case"])
    v = Verdict()
    canonical = args.get("canonical", False)
    L = lib()
    if canonical:
        try:
            code = L.CodeData.from_code(code).normalize().to_code()
        except Exception:
            raise Reject("canonical re-encoding failed (C05's business)")
        v.features["canonical_input"] += 1
    _program_features(code, v)
    budget = [args.get("max_reencode", 60)]
    nontrivial = False
    for path, c, cd in _decode_each(code, v):
        ranks, unref, sizes = _first_use_ranks(c)
        if max(sizes.values()) >= 3:
            nontrivial = True
        flat, _ = _flatten(cd)
        # collect overrides: (table, position) -> present
        ovr = collections.OrderedDict()
        uses = list(i.arg for i in flat) + list(cd._additional_args)
        for a in uses:
            t, _val = _arg_table(L, a)
            if t is not None and a._index_override is not None:
                ovr[(t, a._index_override)] = True
        in_order = all(ranks[t].get(p) == p for t in ranks for p in ranks[t]) and not any(unref.values())
        if in_order:
            # tables in first-use order, nothing unreferenced: no additional args; an override can
            # still be justified by the statement's second clause (two table entries with the same
            # constant key, e.g. two separately folded NaNs), so each one goes through the
            # remove-and-re-encode test below like any other override in rank position
            v.features["codeobj_first_use_order"] += 1
            if ovr:
                v.features["codeobj_first_use_order_with_override"] += 1
            if cd._additional_args:
                v.violate("additional_args_on_ordered_code", "present", "%s: %r" % (path, cd._additional_args[:3]))
        # additional args == unreferenced entries, per table (multiset)
        add = collections.Counter()
        for a in cd._additional_args:
            t, val = _arg_table(L, a)
            add[t] += 1
        for t in unref:
            if add.get(t, 0) != len(unref[t]):
                v.violate("additional_args", t, "%s: %d unreferenced %s entries, %d additional args"
                          % (path, len(unref[t]), t, add.get(t, 0)))
        if any(unref.values()):
            v.features["codeobj_with_unreferenced"] += 1
        justified = 0
        for (t, pos), _x in ovr.items():
            r = ranks[t].get(pos)
            if r is None:
                v.violate("override_out_of_table", t, "%s: %s override %r outside table of %d" % (path, t, pos, sizes[t]))
                continue
            if r != pos:
                justified += 1
                continue
            # position == rank: justified only if removing it changes the encoding
            if budget[0] <= 0:
                v.features["reencode_budget_exhausted"] += 1
                continue
            budget[0] -= 1
            try:
                r2 = _clear_override(L, cd, t, pos).to_code()
                same = not refs.ident_diff(c, r2, nan_bits=True, limit=1)
            except Exception:
                same = False
            if same:
                v.violate("redundant_override" if not in_order else "override_on_ordered_code", t, "%s: %s entry at position %d == first-use rank, and re-encoding without the override gives the identical code object" % (path, t, pos))
            else:
                justified += 1
                v.features["override_needed_despite_rank"] += 1
        if justified:
            v.features["codeobj_with_justified_override"] += 1
    v.info["nontrivial"] = nontrivial
    return v.result()
