#!/opt/veriftools/pyvenv/bin/python
# Coverage-guided tier of C10 (thorough only): an atheris/libFuzzer target over the
# line-table stage functions of code_data._line_mapping (interpreter-independent code).
# Fuzz bytes are decoded into an abstract line program (G-LINE), emitted through the
# assembler models for one of the formats, and the stage-level oracle of ops_line
# (reference reader = linemodels.read_*; byte-exact re-encoding; per-stage round trips)
# is evaluated in-process.  A failing input is saved by libFuzzer; the C10 check decodes
# it with decode() below and re-verifies it through the worker path on the real
# interpreters before anything is reported.
#
# usage: fuzz_c10.py <corpus_dir> -runs=N -seed=S -artifact_prefix=DIR/   (run under python3-vt)
import copy
import os
import sys

HERE = os.path.dirname(os.path.abspath(__file__))
sys.path.insert(0, HERE)
import linemodels  # noqa: E402

UNITS = [1, 1, 1, 2, 3, 5, 63, 64, 65, 126, 127, 128, 129, 130, 254, 255, 256, 300, 510]
DELTAS = [0, 1, 1, 2, -1, -2, 126, 127, 128, 129, -126, -127, -128, -129, 253, 254, 255, 256, 257, -253, -254, -255, -256, -257,
          381, 382, -381, -384, 1000, -1000]
FMTS = ["lnotab37", "lnotab38", "lnotab39", "linetable"]


class Bytes(object):
    def __init__(self, data):
        self.d = data
        self.i = 0

    def byte(self):
        if self.i >= len(self.d):
            return 0
        b = self.d[self.i]
        self.i += 1
        return b

    def left(self):
        return len(self.d) - self.i


def decode(data):
    """fuzz bytes -> G-LINE table case (same shape as gen_line.line_programs)"""
    b = Bytes(data)
    fmt = FMTS[b.byte() % 4]
    first = [1, 2, 100, 1000][b.byte() % 4]
    n = 1 + b.byte() % 24
    line = first
    if fmt == "linetable":
        prog = []
        for _ in range(n):
            if b.left() <= 0:
                break
            units = UNITS[b.byte() % len(UNITS)]
            k = b.byte()
            if k % 8 == 0:
                prog.append((units, None))
            else:
                if k % 8 >= 3:
                    line = max(1, line + DELTAS[b.byte() % len(DELTAS)])
                prog.append((units, line))
        if not prog:
            prog = [(1, first)]
        table = linemodels.model_linetable(prog, first)
        intended = []
        for u, l in prog:
            intended.extend([l] * u)
        groups = []
        for u, l in prog:
            groups.extend([1] * u)
    else:
        prog = []
        for i in range(n):
            if b.left() <= 0:
                break
            units = UNITS[b.byte() % len(UNITS)]
            k = b.byte()
            deleted = k % 16 == 1
            if deleted:
                units = 1 + (k // 16) % 2
            if k % 8 == 2 and i > 0:
                mark = None
            elif k % 8 == 3:
                mark = line
            else:
                line = max(1, line + DELTAS[b.byte() % len(DELTAS)])
                mark = line
            prog.append((units, mark, deleted))
        if not prog or all(d for _u, _l, d in prog):
            prog.append((1, None, False))
        table = linemodels.model_lnotab(prog, first, fmt[-2:])
        if table is None:
            prog = [(u, l, False) for u, l, _d in prog]
            table = linemodels.model_lnotab(prog, first, fmt[-2:])
        intended = []
        cur = first
        for u, l, d in prog:
            if l is not None:
                cur = l
            if not d:
                intended.extend([cur] * u)
        groups = []
        for u, l, d in prog:
            if not d:
                groups.extend([1] * u)
    return {"fmt": fmt, "table": table.hex(), "first": first, "groups": groups, "intended": intended, "aligned": True}


class OracleFailure(Exception):
    pass


def oracle(L, case):
    table = bytes.fromhex(case["table"])
    is_lt = case["fmt"] == "linetable"
    first = case["first"]
    nbytes = 2 * sum(case["groups"])
    ref = linemodels.read_linetable(table, first) if is_lt else linemodels.read_lnotab(table, nbytes, first)
    if [ref.get(o) for o in range(0, nbytes, 2)] != case["intended"]:
        return  # model failure: not a table to judge the library by
    items = L.bytes_to_items(table)
    if L.items_to_bytes(copy.deepcopy(items)) != table:
        raise OracleFailure("bytes_items")
    collapsed = L.collapse_items(copy.deepcopy(items), is_lt)
    expanded = L.expand_items(copy.deepcopy(collapsed), is_lt)
    if [(i.bytecode_offset, i.line_offset) for i in expanded] != [(i.bytecode_offset, i.line_offset) for i in items]:
        raise OracleFailure("collapse_expand")
    mapping = L.items_to_mapping(copy.deepcopy(collapsed), nbytes, is_lt)
    back = L.mapping_to_items(copy.deepcopy(mapping), is_lt)
    if [(i.bytecode_offset, i.line_offset) for i in back] != [(i.bytecode_offset, i.line_offset) for i in collapsed]:
        raise OracleFailure("mapping_items")
    for o in range(0, nbytes, 2):
        got = mapping.offset_to_line.get(o, "missing")
        if got != "missing" and got is not None:
            got += first
        if got != ref.get(o):
            raise OracleFailure("mapping_wrong")
    whole = L.items_to_bytes(L.expand_items(L.mapping_to_items(copy.deepcopy(mapping), is_lt), is_lt))
    if whole != table:
        raise OracleFailure("reencode_differs")


def main():
    import atheris
    with atheris.instrument_imports(include=["code_data"]):
        from code_data import _line_mapping as L

    def test_one(data):
        if len(data) < 4:
            return
        oracle(L, decode(data))

    atheris.Setup(sys.argv, test_one)
    atheris.Fuzz()


if __name__ == "__main__":
    main()
