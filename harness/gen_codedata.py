# G-CD: hand-built CodeData specs (own notation, built in the worker with the dataclass
# constructors; no private override field is ever set).  Driver side.
from hypothesis import strategies as st

import gen_const

LINE_DELTAS = [0, 0, 1, 1, 2, -1, 126, 127, 128, 129, -126, -127, -128, -129, 253, 254, 255, 256, 257, -253, -254, -255, -256, -257,
               381, 382, -381, -382, -383, -509, 1000, -1000]
BLOCK_SIZES = [1, 1, 2, 3, 4, 7]
FILL_COUNTS = [40, 84, 85, 86, 126, 127, 128, 129, 130, 254, 255, 256, 257, 258, 300]
NAMES = ["n0", "n1", "n2", "x", "y"]
LOCALS = ["v0", "v1", "v2", "t"]
CELLS = ["c0", "c1", "c2"]
MERGE = [["int", "1"], ["bool", True], ["float", gen_const.f2h(1.0)], ["int", "0"], ["bool", False], ["float", gen_const.f2h(0.0)],
         ["float", gen_const.f2h(-0.0)], ["str", "a"], ["bytes", "61"], ["tuple", [["int", "1"]]], ["tuple", [["bool", True]]],
         ["complex", gen_const.f2h(0.0), gen_const.f2h(0.0)], ["complex", gen_const.f2h(-0.0), gen_const.f2h(0.0)],
         ["float", "7ff8000000000000"], ["float", "fff8000000000000"], ["none"], ["str", "doc"], ["fset", [["int", "1"]]],
         ["fset", [["bool", True]]], ["tuple", [["float", gen_const.f2h(0.0)]]], ["tuple", [["float", gen_const.f2h(-0.0)]]]]


@st.composite
def function_specs(draw):
    if draw(st.integers(0, 2)) == 0:
        return None
    npo = draw(st.integers(0, 2)) if draw(st.integers(0, 3)) == 0 else 0
    npk = draw(st.integers(0, 3))
    nko = draw(st.integers(0, 2))
    args = {"po": ["p%d" % i for i in range(npo)], "pk": ["a%d" % i for i in range(npk)], "ko": ["k%d" % i for i in range(nko)],
            "va": "args" if draw(st.booleans()) else None, "vk": "kw" if draw(st.integers(0, 2)) == 0 else None}
    doc = draw(st.sampled_from([None, None, "doc", "", "a", "\ud800"]))
    kind = draw(st.sampled_from([None, None, None, "GENERATOR", "COROUTINE", "ASYNC_GENERATOR"]))
    return {"args": args, "doc": doc, "kind": kind}


@st.composite
def codedata_specs(draw, big=False, depth=0):
    fn = draw(function_specs())
    params = []
    if fn:
        a = fn["args"]
        params = a["po"] + a["pk"] + a["ko"] + ([a["va"]] if a["va"] else []) + ([a["vk"]] if a["vk"] else [])
    freevars = ["fr%d" % i for i in range(draw(st.integers(0, 2)) if draw(st.integers(0, 3)) == 0 else 0)]
    nblocks = draw(st.sampled_from([1, 1, 2, 2, 3, 4, 5, 8] + ([40, 300] if big else [])))
    allow_none = draw(st.integers(0, 5)) == 0
    line = draw(st.sampled_from([1, 1, 5, 100, 2000]))
    first_line = line
    min_version = 8 if (fn and fn["args"]["po"]) else 7
    blocks = []
    for b in range(nblocks):
        blk = []
        n = draw(st.sampled_from(BLOCK_SIZES)) if nblocks <= 8 else draw(st.sampled_from([1, 2, 3]))
        for _ in range(n):
            k = draw(st.integers(0, 19))
            if draw(st.integers(0, 3)) == 0:
                line = max(1, line + draw(st.sampled_from(LINE_DELTAS)))
            ln = None if (allow_none and draw(st.integers(0, 3)) == 0) else line
            if k <= 2:
                ins = ["name", draw(st.sampled_from(NAMES)), ln, draw(st.integers(0, 7))]
            elif k <= 4:
                ins = ["local", draw(st.sampled_from(LOCALS + params)) if fn else draw(st.sampled_from(LOCALS)), ln, draw(st.integers(0, 2))]
            elif k == 5:
                ins = ["cell", draw(st.sampled_from(CELLS)), ln, draw(st.integers(0, 3))]
            elif k == 6 and freevars:
                ins = ["free", draw(st.sampled_from(freevars)), ln, draw(st.integers(0, 3))]
            elif k <= 9:
                which = draw(st.integers(0, 5))
                if which <= 2:
                    c = draw(st.sampled_from(MERGE))
                elif which <= 4 or depth > 0:
                    c = draw(gen_const.const_specs(max_leaves=4))
                else:
                    c = draw(codedata_specs(big=False, depth=depth + 1))
                    min_version = max(min_version, c.pop("min_version", 7))
                ins = ["const", c, ln]
            elif k <= 12:
                ins = ["jabs", draw(st.integers(0, nblocks - 1)), ln, draw(st.integers(0, 5))]
            elif k <= 14 and b < nblocks - 1:
                ins = ["jrel", draw(st.integers(b + 1, nblocks - 1)), ln, draw(st.integers(0, 5))]
            elif k == 15:
                ins = ["int", draw(st.sampled_from([0, 1, 2, 255, 256, 65535, 65536, 2 ** 24 - 1, 2 ** 24, 2 ** 31 - 1])), ln, draw(st.integers(0, 6))]
            elif k == 16 and depth == 0:
                kind = draw(st.sampled_from(["noarg", "noarg", "name", "const", "local", "cell"]))
                cnt = draw(st.sampled_from(FILL_COUNTS))
                ins = ["FILL", kind, draw(st.sampled_from([0, 0, 200, 1000])), cnt, ln]
            else:
                ins = ["noarg", None, ln, draw(st.integers(0, 7))]
            blk.append(ins)
        blocks.append(blk)
    spec = {"fn": fn, "freevars": freevars, "blocks": blocks, "first_line": first_line, "stacksize": draw(st.sampled_from([0, 1, 7, 300])),
            "fa": draw(st.integers(0, 9)) == 0, "name": draw(st.sampled_from(["built", "<lambda>", "f"])),
            "filename": draw(st.sampled_from(["<built>", "a/b.py", "\udcffx.py"])), "min_version": min_version}
    return spec


def huge_specs():
    """>65k-entry tables and >65k-unit layouts (thorough tier, fixed)"""
    out = []
    for kind in ("name", "const", "local", "cell"):
        out.append({"fn": {"args": {"po": [], "pk": ["a0"], "ko": [], "va": None, "vk": None}, "doc": None, "kind": None}, "freevars": [],
                    "blocks": [[["FILL", kind, 0, 65540, 1], [kind, ("n65539" if kind == "name" else "v65539" if kind == "local" else "c65539") if kind != "const" else ["int", "165539"], 2]],
                               [["jabs", 0, 3], ["noarg", None, 3]]],
                    "first_line": 1, "stacksize": 1, "min_version": 7})
    out.append({"fn": None, "freevars": [], "blocks": [[["jabs", 2, 1], ["jrel", 1, 1]], [["FILL", "noarg", 0, 65600, 2]], [["jabs", 1, 3], ["noarg", None, 4]]],
                "first_line": 1, "stacksize": 1, "min_version": 7})
    out.append({"fn": None, "freevars": [], "blocks": [[["jrel", 2, 1]], [["FILL", "noarg", 0, 32760, 2], ["FILL", "noarg", 0, 32800, 9000]], [["jabs", 0, 3], ["jabs", 1, 3], ["jabs", 2, 3]]],
                "first_line": 1, "stacksize": 1, "min_version": 7})
    return out


def cascade_specs():
    out = []
    for n in list(range(120, 131)) + list(range(248, 259)):
        out.append({"fn": None, "freevars": [], "first_line": 1, "stacksize": 1, "min_version": 7,
                    "blocks": [[["jabs", 2, 1, 0], ["FILL", "noarg", 0, n, 1]], [["jabs", 1, 2, 0], ["FILL", "noarg", 0, 10, 2]], [["noarg", None, 3, 2]]]})
        out.append({"fn": None, "freevars": [], "first_line": 1, "stacksize": 1, "min_version": 7,
                    "blocks": [[["jrel", 2, 1, 0], ["jabs", 1, 1, 1], ["FILL", "noarg", 0, n, 1]], [["jabs", 2, 2, 0], ["FILL", "noarg", 0, 5, 2]],
                               [["jabs", 0, 3, 0], ["noarg", None, 3, 2]]]})
    # deep cascade: k jumps at the start whose targets are k consecutive one-instruction blocks, the last of
    # them just over the one-byte operand limit: every pass of the width fix point widens exactly one more jump
    # (the previous widening moved the next target over the limit), so it needs k+1 passes
    for k in (4, 6, 8, 12, 20):
        for t in (126, 127, 128, 129, 254, 255, 256, 257):
            fill = t - 2 * k + 1
            if fill < 1:
                continue
            first = [["jabs", j, 1, 0] for j in range(k, 0, -1)] + [["FILL", "noarg", 0, fill, 1]]
            out.append({"fn": None, "freevars": [], "first_line": 1, "stacksize": 1, "min_version": 7,
                        "blocks": [first] + [[["noarg", None, 2, 2]] for _ in range(k)]})
    return out


FIXED_SPECS = [
    # minimal shapes named in DESIGN section 7.4
    {"fn": None, "freevars": [], "blocks": [[["noarg", None, None, 2]]], "first_line": 1, "stacksize": 1, "min_version": 7},
    {"fn": {"args": {"po": [], "pk": [], "ko": [], "va": None, "vk": None}, "doc": None, "kind": None}, "freevars": [],
     "blocks": [[["const", ["str", "first const is a string"], 1], ["noarg", None, 1, 2]]], "first_line": 1, "stacksize": 1, "min_version": 7},
    {"fn": {"args": {"po": [], "pk": ["a0"], "ko": ["k0"], "va": "args", "vk": "kw"}, "doc": "doc", "kind": "GENERATOR"}, "freevars": ["fr0"],
     "blocks": [[["const", ["str", "doc"], 1], ["local", "k0", 1], ["local", "args", 2], ["free", "fr0", 2], ["cell", "c0", 3], ["noarg", None, 3, 2]]],
     "first_line": 1, "stacksize": 2, "min_version": 7},
    {"fn": None, "freevars": [], "blocks": [[["const", ["float", gen_const.f2h(0.0)], 1], ["const", ["float", gen_const.f2h(-0.0)], 1], ["const", ["int", "1"], 1],
                                             ["const", ["bool", True], 1], ["const", ["float", gen_const.f2h(1.0)], 1], ["const", ["str", "a"], 1], ["const", ["bytes", "61"], 1],
                                             ["noarg", None, 1, 2]]], "first_line": 1, "stacksize": 1, "min_version": 7},
    {"fn": None, "freevars": [], "blocks": [[["jabs", 1, 1], ["FILL", "noarg", 0, 126, 1]], [["jabs", 2, 2], ["FILL", "noarg", 0, 126, 2]], [["jabs", 0, 3], ["noarg", None, 3]]],
     "first_line": 1, "stacksize": 1, "min_version": 7},
    {"fn": None, "freevars": [], "blocks": [[["jrel", 1, 1], ["FILL", "noarg", 0, 254, 1]], [["jrel", 2, 300], ["FILL", "noarg", 0, 254, 2]], [["noarg", None, 3]]],
     "first_line": 1, "stacksize": 1, "min_version": 7},
]
