# C16 ops: the command line prints what the API returns.  py3.7, stdlib only.
import atexit
import contextlib
import dis
import importlib
import io
import json
import os
import re
import shutil
import subprocess
import sys
import tempfile
import types
import warnings

import refs
from ops import REPO, Reject, Verdict, exc_detail, exc_sig, lib, op

CodeType = types.CodeType
_scratch = None
_modcount = [0]
HERE = os.path.dirname(os.path.abspath(__file__))


def scratch():
    global _scratch
    if _scratch is None:
        base = os.environ.get("VERIF_SCRATCH_DIR") or os.path.join(os.path.dirname(HERE), ".scratch")
        os.makedirs(base, exist_ok=True)
        _scratch = tempfile.mkdtemp(prefix="cli-%d-" % os.getpid(), dir=base)
        atexit.register(shutil.rmtree, _scratch, True)
        sys.path.insert(0, _scratch)
    return _scratch


def _addr(s):
    """normalise what legitimately differs between two processes printing the same code object:
    object addresses, and the listing order of frozenset elements (hash(None) and friends are
    address-based, so even with PYTHONHASHSEED=0 a subprocess may list them in another order)"""
    s = re.sub(r" at 0x[0-9a-fA-F]+", " at 0x?", s)
    if "frozenset({" in s:
        s = _canon_frozensets(s)
    return s


def _canon_frozensets(s):
    out = []
    i = 0
    key = "frozenset({"
    while True:
        j = s.find(key, i)
        if j < 0:
            out.append(s[i:])
            break
        out.append(s[i:j + len(key)])
        k = j + len(key)
        depth = 0
        start = k
        parts = []
        in_str = None
        while k < len(s):
            ch = s[k]
            if in_str:
                if ch == "\\":
                    k += 1
                elif ch == in_str:
                    in_str = None
            elif ch in "'\"":
                in_str = ch
            elif ch in "([{":
                depth += 1
            elif ch in ")]}":
                if depth == 0:
                    break
                depth -= 1
            elif ch == "," and depth == 0:
                parts.append(s[start:k].strip())
                start = k + 1
            k += 1
        parts.append(s[start:k].strip())
        out.append(", ".join(sorted(_canon_frozensets(p_) for p_ in parts)))
        i = k
    return "".join(out)


def render_dis(code):
    """what `--dis` prints for a code object: show_code recursively, then dis.dis"""
    out = io.StringIO()
    with contextlib.redirect_stdout(out):
        _show_rec(code)
        dis.dis(code)
    return out.getvalue()


def _show_rec(code):
    dis.show_code(code)
    print("")
    for c in code.co_consts:
        if isinstance(c, CodeType):
            _show_rec(c)


_DIS_LINE = re.compile(r"^\s*(\d+)?\s*(>>)?\s*(\d+)\s+([A-Z_+]+)(?:\s+(-?\d+)(?:\s+\((.*)\))?)?\s*$")


def dis_instructions(text):
    """[(opname, resolved operand text or None)] from dis output (all code objects in order)"""
    out = []
    for line in text.splitlines():
        m = _DIS_LINE.match(line)
        if not m:
            continue
        opname = m.group(4)
        if opname == "EXTENDED_ARG":
            continue  # prefixes are folded away: their number may change under normalization
        rep = m.group(6)
        if opname in dis.opmap and (dis.opmap[opname] in dis.hasjabs or dis.opmap[opname] in dis.hasjrel):
            rep = None
        elif opname in dis.opmap and dis.opmap[opname] in dis.hasconst or rep is not None:
            rep = _addr(rep) if rep is not None else None
        else:
            rep = m.group(5)
        out.append((opname, rep))
    return out


def _dis_sections(text):
    """split dis output into per-code-object instruction lists (opnames + resolved operands,
    nested code operands reduced to their name)"""
    sections = []
    cur = None
    started = False
    for line in text.splitlines():
        if line.startswith("Disassembly of "):
            cur = []
            sections.append(cur)
            continue
        m = _DIS_LINE.match(line)
        if not m:
            continue
        if cur is None:
            cur = []
            sections.append(cur)
        one = dis_instructions(line)
        if one:
            name, rep = one[0]
            if rep is not None and rep.startswith("<code object "):
                rep = rep.split(" at ")[0]
            cur.append((name, rep))
    return [tuple(x) for x in sections]


def _sections_by_reference(code, seen=None):
    if seen is None:
        seen = set()
    if id(code) in seen:
        return []
    seen.add(id(code))
    out = io.StringIO()
    with contextlib.redirect_stdout(out):
        dis.dis(code, depth=0)
    res = _dis_sections(out.getvalue())
    for first, off, opc, arg in refs.units(code.co_code):
        if opc in refs.HASCONST and isinstance(code.co_consts[arg], CodeType):
            res += _sections_by_reference(code.co_consts[arg], seen)
    return res


def run_main_inprocess(argv):
    from code_data import _cli
    out, err = io.StringIO(), io.StringIO()
    old_argv = sys.argv
    sys.argv = ["python-code-data"] + list(argv)
    status = 0
    exc = None
    try:
        with contextlib.redirect_stdout(out), contextlib.redirect_stderr(err), warnings.catch_warnings():
            warnings.simplefilter("ignore")
            try:
                _cli.main()
            except SystemExit as e:
                status = e.code if isinstance(e.code, int) else (0 if e.code is None else 1)
            except BaseException as e:  # noqa
                status = 1
                exc = e
    finally:
        sys.argv = old_argv
    return status, out.getvalue(), err.getvalue(), exc


def run_main_subprocess(argv, cwd):
    env = dict(os.environ)
    env["PYTHONIOENCODING"] = "utf-8"
    try:
        p = subprocess.run([sys.executable, "-B", "-c", "from code_data._cli import main; main()"] + list(argv),
                           stdout=subprocess.PIPE, stderr=subprocess.PIPE, env=env, cwd=cwd, timeout=120)
    except (ValueError, UnicodeEncodeError) as e:
        raise Reject("argv not passable to a subprocess: %s" % e)
    return p.returncode, p.stdout.decode("utf-8", "replace"), p.stderr.decode("utf-8", "replace"), None


def _eval_repr(L, text):
    """read a printed repr back (only used when the text differs from the expected repr)"""
    ns = {k: getattr(L, k) for k in ("CodeData", "Instruction", "Jump", "Name", "Varname", "Constant", "Freevar", "Cellvar",
                                     "NoArg", "Args", "Function", "AdditionalLine")}
    ns.update({"inf": float("inf"), "Ellipsis": Ellipsis})
    text = re.sub(r"\binfj\b", "complex(0, inf)", text)
    text = re.sub(r"\bnanj\b", "complex(0, nan)", text)
    # every printed `nan` is its own object, as in the value that was printed: one shared NaN object would
    # collapse `frozenset({nan, nan, 1.5})` to two members when read back
    return eval(text, ns, _FreshNan())


class _FreshNan(object):
    """locals mapping for _eval_repr: the name `nan` yields a new NaN object at every lookup"""

    def __getitem__(self, key):
        if key == "nan":
            return float("nan")
        raise KeyError(key)


@op("c16")
def op_c16(args):
    L = lib()
    v = Verdict()
    src = args["src"]
    how = args["how"]              # file | c | e | m
    flags = list(args.get("flags", []))
    d = scratch()
    argv = []
    filename = "<string>"
    if how == "file":
        _modcount[0] += 1
        path = os.path.join(d, "prog_%d.py" % _modcount[0])
        try:
            with io.open(path, "w", encoding="utf-8", newline="") as f:
                f.write(src)
        except UnicodeEncodeError:
            raise Reject("source not writable as utf-8")
        with io.open(path, "r") as f:
            eff = f.read()          # what file.read_text() gives (universal newlines)
        argv = [path]
        filename = path
    elif how == "c":
        cmd = src.replace("\n", "\\n")
        if cmd.startswith("-"):
            raise Reject("argparse would not take this as the value of -c")
        eff = cmd.replace("\\n", "\n")
        argv = ["-c" + cmd] if args.get("attached") else ["-c", cmd]
    elif how == "e":
        style = args.get("e_style", 0)
        parts = src.split("\n")
        if style == 1:
            expr = "linesep.join([%s])" % ", ".join(repr(l) for l in parts)
        elif style == 2:
            # linesep used inside a nested scope of the expression
            expr = "''.join(l + linesep for l in [%s])[:-len(linesep)]" % ", ".join(repr(l) for l in parts)
        else:
            expr = " + linesep + ".join(repr(l) for l in parts)
        try:
            eff = eval(expr, {"linesep": os.linesep})
        except (RecursionError, MemoryError, SyntaxError):
            # hundreds of lines joined with `+`: the expression itself is too deep to compile
            raise Reject("-e expression not evaluable")
        argv = ["-e" + expr] if args.get("attached") else ["-e", expr]
    elif how == "m":
        _modcount[0] += 1
        mod = "verifmod_%d_%d" % (os.getpid(), _modcount[0])
        path = os.path.join(d, mod + ".py")
        try:
            with io.open(path, "w", encoding="utf-8", newline="") as f:
                f.write(src)
        except UnicodeEncodeError:
            raise Reject("source not writable as utf-8")
        importlib.invalidate_caches()
        with io.open(path, "rb") as f:
            eff = f.read()
        argv = ["-m" + mod] if args.get("attached") else ["-m", mod]
        filename = path
    else:
        raise Reject("unknown source option")
    if "\x00" in src:
        raise Reject("NUL in source")
    # the API's result for the same program
    try:
        with warnings.catch_warnings():
            warnings.simplefilter("ignore")
            code = compile(eff, filename, "exec", dont_inherit=True) if how == "m" else compile(eff, filename, "exec")
    except (SyntaxError, ValueError, OverflowError, RecursionError, MemoryError, UnicodeError) as e:
        raise Reject("not a valid program: %s" % type(e).__name__)
    try:
        raw = L.CodeData.from_code(code)
        expected = raw if "--no-normalize" in flags else raw.normalize()
        exp_repr = repr(expected)
    except Exception as e:
        raise Reject("API raises on this program (C01's business): %s" % exc_sig(e))
    argv = argv + flags
    use_sub = bool(args.get("subprocess"))
    if use_sub:
        try:
            " ".join(argv).encode("utf-8")
        except UnicodeEncodeError:
            raise Reject("argv not encodable")
        env_pp = os.environ.get("PYTHONPATH", "")
        status, out, err, exc = run_main_subprocess(argv, d)
        v.features["subprocess_runs"] += 1
    else:
        status, out, err, exc = run_main_inprocess(argv)
        v.features["inprocess_runs"] += 1
    v.features["how_" + how] += 1
    if args.get("attached") and how != "file":
        v.features["attached_option_value"] += 1
    if how == "e":
        v.features["e_style_%d" % args.get("e_style", 0)] += 1
    for f in flags:
        v.features["flag_" + f] += 1
    v.info["nontrivial"] = len([f for f in flags if f != "--no-normalize"]) >= 2 or len(flags) >= 2
    if status != 0:
        v.violate("valid_program_fails", "exit_%s%s" % (status, (":" + exc_sig(exc)) if exc is not None else ""),
                  "argv %r: exit %r, stderr %.300r %s" % (argv[:1] + flags, status, err[-300:], exc_detail(exc) if exc is not None else ""))
        return v.result()
    # ---- segment stdout: [source echo][dis text] repr-line [json text][dis-after text]
    lines = out.split("\n")
    idx = None
    for i, ln in enumerate(lines):
        if ln == exp_repr:
            idx = i
            break
    if idx is None:
        # not textually there: find a line that reads back as the expected value
        for i, ln in enumerate(lines):
            if ln.startswith("CodeData("):
                try:
                    if _eval_repr(L, ln) == expected:
                        idx = i
                        v.features["repr_matched_by_value"] += 1
                        break
                except Exception:
                    pass
    if idx is None:
        got = [ln for ln in lines if ln.startswith("CodeData(")]
        hint = ""
        if got:
            try:
                other = _eval_repr(L, got[0])
                if "--no-normalize" in flags and other == raw.normalize():
                    hint = " (it printed the NORMALIZED value although --no-normalize was given)"
                elif "--no-normalize" not in flags and other == raw and raw != raw.normalize():
                    hint = " (it printed the UN-normalized value)"
            except Exception:
                pass
        v.violate("printed_value_differs", "repr" + ("_no_normalize" if "--no-normalize" in flags else "_normalized"),
                  "argv %r: no output line equals repr(API result)%s; expected %.200s... printed %.200s..." % (argv[:1] + flags, hint, exp_repr, got[0] if got else None))
        return v.result()
    before = "\n".join(lines[:idx])
    if idx > 0:
        before += "\n"
    after = "\n".join(lines[idx + 1:])
    # before = source echo + dis text
    exp_before = ""
    if "--source" in flags:
        src_text = eff.decode("utf-8") if isinstance(eff, bytes) else eff
        if how == "m":
            # loader.get_source decodes with universal newlines
            src_text = io.StringIO(src_text, newline=None).read()
        exp_before += src_text + "\n"
    if "--dis" in flags:
        exp_before += render_dis(code)
    if _addr(before) != _addr(exp_before):
        v.violate("output_before_value", "source_or_dis", "argv %r: text before the value differs: %.200r vs expected %.200r" % (argv[:1] + flags, before[-200:], exp_before[-200:]))
    rest = after
    if "--json" in flags:
        try:
            obj, end = json.JSONDecoder().raw_decode(rest.lstrip())
            consumed = len(rest) - len(rest.lstrip()) + end
            rest = rest[consumed:]
            loaded = L.CodeData.from_json_data(obj)
            if loaded != expected:
                hint = ""
                if loaded == raw and raw != expected:
                    hint = " (the JSON holds the UN-normalized value)"
                elif loaded == raw.normalize() and raw.normalize() != expected:
                    hint = " (the JSON holds the NORMALIZED value)"
                v.violate("printed_value_differs", "json", "argv %r: from_json_data(printed JSON) != API result%s" % (argv[:1] + flags, hint))
        except Exception as e:
            v.violate("json_unreadable", type(e).__name__, "argv %r: %s; text %.200r" % (argv[:1] + flags, exc_detail(e), after[:200]))
            return v.result()
    if rest.startswith("\n"):
        rest = rest[1:]
    if "--dis-after" in flags:
        try:
            exp_after = render_dis(expected.to_code())
        except Exception:
            exp_after = None
        if exp_after is not None and _addr(rest) != _addr(exp_after):
            v.violate("dis_after_differs", "vs_api_to_code", "argv %r: --dis-after text is not the disassembly of the API result's to_code(): %.200r vs %.200r" % (argv[:1] + flags, rest[:200], exp_after[:200]))
        if "--dis" in flags:
            if "--no-normalize" in flags:
                a = dis_instructions(render_dis(code))
                b = dis_instructions(rest)
                if a != b:
                    v.violate("dis_after_differs", "instructions", "argv %r: --dis-after lists %d instructions, --dis %d; first differing: %r"
                              % (argv[:1] + flags, len(b), len(a), [(x, y) for x, y in zip(a, b) if x != y][:2]))
            else:
                # normalization may reorder the constant table (dis lists nested code objects in table
                # order) and drops nested code objects no instruction refers to: compare, as multisets,
                # the per-code-object instruction lists of the code objects reachable by reference
                a = sorted(_sections_by_reference(code))
                b = sorted(_dis_sections(rest))
                if a != b:
                    v.violate("dis_after_differs", "instructions", "argv %r: --dis-after lists %d code objects / %d instructions, --dis (referenced code objects) %d / %d"
                              % (argv[:1] + flags, len(b), sum(len(x) for x in b), len(a), sum(len(x) for x in a)))
    elif rest.strip():
        v.violate("unexpected_output", "trailing", "argv %r: %.200r" % (argv[:1] + flags, rest[:200]))
    return v.result()


@op("c16_invalid")
def op_c16_invalid(args):
    """zero sources or two or more: exit status 2 and nothing on stdout"""
    v = Verdict()
    d = scratch()
    given = args["sources"]       # subset of file|c|e|m
    argv = []
    if "file" in given:
        path = os.path.join(d, "inv.py")
        with io.open(path, "w") as f:
            f.write(args.get("src", "x = 1\n"))
        argv.append(path)
    if "c" in given:
        argv += ["-c", args.get("c_text", "x = 1")]
    if "e" in given:
        argv += ["-e", args.get("e_text", "'x = 1'")]
    if "m" in given:
        argv += ["-m", "json"]
    argv += list(args.get("flags", []))
    if args.get("subprocess"):
        status, out, err, exc = run_main_subprocess(argv, d)
        v.features["subprocess_runs"] += 1
    else:
        status, out, err, exc = run_main_inprocess(argv)
        v.features["inprocess_runs"] += 1
    v.features["invalid_sets"] += 1
    v.features["invalid_%d_sources" % len(given)] += 1
    v.info["nontrivial"] = True
    if status != 2 or exc is not None:
        v.violate("invalid_args_accepted", "%d_sources" % len(given), "sources %r (argv %r): exit %r instead of a usage error (2); stdout %.120r"
                  % (given, [a if len(a) < 40 else a[:40] for a in argv], status, out[:120]))
    elif out.strip():
        v.violate("invalid_args_output", "stdout", "sources %r: usage error but stdout %.120r" % (given, out[:120]))
    return v.result()
