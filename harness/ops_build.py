# Hand-built CodeData (G-CD -> C03), reference re-assembler + serialization variants
# (R-ASM, G-VARIANT -> C06), behavioural comparison (C05 b).  py3.7, stdlib only.
import dataclasses
import io
import opcode
import signal
import sys
import types

import linemodels
import refs
from ops import Reject, Verdict, compile_case, exc_detail, exc_sig, lib, op
from ops_const import build_const, code_replace

CodeType = types.CodeType
V = sys.version_info[:2]
AT310 = V >= (3, 10)
OPMAP = opcode.opmap


def _ops(names):
    return [n for n in names if n in OPMAP]


CLS_OPS = {
    "name": _ops(["LOAD_NAME", "STORE_NAME", "LOAD_ATTR", "LOAD_GLOBAL", "STORE_GLOBAL", "IMPORT_NAME", "DELETE_NAME", "LOAD_METHOD"]),
    "local": _ops(["LOAD_FAST", "STORE_FAST", "DELETE_FAST"]),
    "cell": _ops(["LOAD_DEREF", "STORE_DEREF", "LOAD_CLOSURE", "DELETE_DEREF"]),
    "free": _ops(["LOAD_DEREF", "STORE_DEREF", "LOAD_CLOSURE", "LOAD_CLASSDEREF"]),
    "const": _ops(["LOAD_CONST"]),
    "jabs": [opcode.opname[o] for o in sorted(opcode.hasjabs)],
    "jrel": [opcode.opname[o] for o in sorted(opcode.hasjrel)],
    "noarg": _ops(["NOP", "POP_TOP", "RETURN_VALUE", "DUP_TOP", "BINARY_ADD", "ROT_TWO", "GET_ITER", "UNARY_NOT"]),
    "int": _ops(["BUILD_TUPLE", "CALL_FUNCTION", "BUILD_LIST", "BUILD_STRING", "UNPACK_SEQUENCE", "RAISE_VARARGS", "BUILD_MAP"]),
}


def _pick(cls, k):
    ops = CLS_OPS[cls]
    return ops[k % len(ops)]


# ---------------------------------------------------------------------- G-CD -> dataclasses
def build_code_data(spec, depth=0):
    """-> (CodeData, flat list of (opname, cls, operand, line)) with no private override field set"""
    L = lib()
    fn = None
    if spec.get("fn") is not None:
        a = spec["fn"]["args"]
        args = L.Args(positional_only=tuple(a.get("po", [])), positional_or_keyword=tuple(a.get("pk", [])),
                      var_positional=a.get("va"), keyword_only=tuple(a.get("ko", [])), var_keyword=a.get("vk"))
        fn = L.Function(args, spec["fn"].get("doc"), spec["fn"].get("kind"))
    flat = []
    blocks = []
    counter = [0]
    for blk in spec["blocks"]:
        out = []
        for ins in blk:
            if ins[0] == "FILL":
                _, kind, start, count, line = ins
                for i in range(start, start + count):
                    if kind == "name":
                        item = ("name", "n%d" % i, line)
                    elif kind == "local":
                        item = ("local", "v%d" % i, line)
                    elif kind == "const":
                        item = ("const", ["int", str(100000 + i)], line)
                    elif kind == "cell":
                        item = ("cell", "c%d" % i, line)
                    else:
                        item = ("noarg", None, line)
                    out.append(_mk_instr(L, item, counter, flat, depth))
            else:
                out.append(_mk_instr(L, ins, counter, flat, depth))
        blocks.append(tuple(out))
    cd = L.CodeData(blocks=tuple(blocks), filename=spec.get("filename", "<built>"), first_line_number=spec.get("first_line", 1),
                    name=spec.get("name", "built"), stacksize=spec.get("stacksize", 1), type=fn,
                    freevars=tuple(spec.get("freevars", [])), future_annotations=bool(spec.get("fa", False)))
    return cd, flat


def _mk_instr(L, ins, counter, flat, depth):
    cls, operand, line = ins[0], ins[1], ins[2]
    k = counter[0]
    counter[0] += 1
    name = _pick(cls, k if len(ins) < 4 else ins[3])
    if cls == "name":
        arg = L.Name(operand)
    elif cls == "local":
        arg = L.Varname(operand)
    elif cls == "cell":
        arg = L.Cellvar(operand)
    elif cls == "free":
        arg = L.Freevar(operand)
    elif cls == "const":
        if isinstance(operand, dict):
            sub, _f = build_code_data(operand, depth + 1)
            arg = L.Constant(sub)
            operand = ("code", sub)
        else:
            val = build_const(operand)
            arg = L.Constant(val)
            operand = ("const", val)
    elif cls == "jabs":
        arg = L.Jump(operand, False)
    elif cls == "jrel":
        arg = L.Jump(operand, True)
    elif cls == "noarg":
        arg = L.NoArg()
    else:
        arg = int(operand)
    flat.append((name, cls, operand, line))
    if cls == "noarg":
        return L.Instruction(name, line_number=line)
    return L.Instruction(name, arg, line_number=line)


def _expected_params(spec):
    if spec.get("fn") is None:
        return []
    a = spec["fn"]["args"]
    # CPython's co_varnames order: positional, keyword-only, *args, **kwargs
    return list(a.get("po", [])) + list(a.get("pk", [])) + list(a.get("ko", [])) + \
        ([a["va"]] if a.get("va") else []) + ([a["vk"]] if a.get("vk") else [])


def _has_posonly(spec):
    if spec.get("fn") and spec["fn"]["args"].get("po"):
        return True
    for blk in spec["blocks"]:
        for ins in blk:
            if ins[0] == "const" and isinstance(ins[1], dict) and _has_posonly(ins[1]):
                return True
    return False


@op("c03")
def op_c03(args):
    spec = args["spec"]
    L = lib()
    v = Verdict()
    cd, flat = build_code_data(spec)
    v.features["instructions"] += len(flat)
    nontrivial = _c03_check(L, spec, cd, flat, v, "top")
    v.info["nontrivial"] = nontrivial
    return v.result()


def _c03_check(L, spec, cd, flat, v, where):
    nblocks = len(spec["blocks"])
    has_none_line = any(f[3] is None for f in flat) or "None" in repr([b for b in spec["blocks"]])
    if has_none_line:
        v.features["none_lines"] += 1
    posonly_on_37 = V < (3, 8) and _has_posonly(spec)
    try:
        code = cd.to_code()
    except NotImplementedError as e:
        if posonly_on_37:
            v.features["posonly_refused_on_37"] += 1
            return False   # the documented guard: refused, nothing silently dropped
        v.violate("to_code_raises", exc_sig(e), "%s: %s" % (where, exc_detail(e)))
        return False
    except Exception as e:
        sub = exc_sig(e)
        if has_none_line and not AT310:
            sub += ":none_line"
        v.violate("to_code_raises", sub, "%s: %s" % (where, exc_detail(e)))
        return False
    if not isinstance(code, CodeType):
        v.violate("to_code_type", type(code).__name__, where)
        return False
    if posonly_on_37:
        # 3.7 cannot express positional-only parameters: returning a code object means they were
        # silently turned into ordinary parameters (the signature is not "as described")
        v.violate("header", "posonly_silently_dropped_on_37", "%s: %r encoded with co_argcount=%d and no error"
                  % (where, spec["fn"]["args"]["po"], code.co_argcount))
        return False
    us = refs.units(code.co_code)
    refs.check_units_against_dis(code, us)
    # (1) instruction count and opnames
    if len(us) != len(flat):
        v.violate("instr_count", "differs", "%s: %d given, %d read back" % (where, len(flat), len(us)))
        return False
    first_of = [u[0] for u in us]
    # block starts (instruction index) of the given data
    bstart = []
    n = 0
    for blk in cd.blocks:
        bstart.append(n)
        n += len(blk)
    ncell = len(code.co_cellvars)
    lm = refs.line_map(code)
    wide_jump = False
    big_table = max(len(code.co_names), len(code.co_varnames), len(code.co_consts), len(code.co_cellvars)) > 256
    seen_keys = {}
    merge_prone = False
    big_delta = False
    prev_line = spec.get("first_line", 1)
    for i, ((first, off, opc, arg), (name, cls, operand, line)) in enumerate(zip(us, flat)):
        if opcode.opname[opc] != name:
            v.violate("opname", "differs", "%s #%d: %s given, %s read back" % (where, i, name, opcode.opname[opc]))
            continue
        if line is not None:
            if abs(line - prev_line) > 127:
                big_delta = True
            prev_line = line
        # (2) jumps
        if cls in ("jabs", "jrel"):
            dest = refs.jump_dest(opc, arg, off)
            want = first_of[bstart[operand]]
            if dest != want:
                v.violate("jump_lands_wrong", cls, "%s #%d %s -> block %d: lands at offset %r, block starts at %d (operand %d, %d prefix units)"
                          % (where, i, name, operand, dest, want, arg, (off - first) // 2))
            if (opc in refs.HASJREL) != (cls == "jrel"):
                v.violate("jump_kind", cls, "%s #%d %s" % (where, i, name))
            if off != first:
                wide_jump = True
        # (3) table operands
        elif cls == "name":
            if arg >= len(code.co_names) or code.co_names[arg] != operand:
                v.violate("operand_resolves_wrong", "name", "%s #%d %s %r -> co_names[%d] of %d = %r"
                          % (where, i, name, operand, arg, len(code.co_names), code.co_names[arg] if arg < len(code.co_names) else "<outside>"))
        elif cls == "local":
            if arg >= len(code.co_varnames) or code.co_varnames[arg] != operand:
                v.violate("operand_resolves_wrong", "local", "%s #%d %s %r -> co_varnames[%d] of %d" % (where, i, name, operand, arg, len(code.co_varnames)))
        elif cls == "cell":
            if arg >= ncell or code.co_cellvars[arg] != operand:
                v.violate("operand_resolves_wrong", "cell", "%s #%d %s %r -> %d (cells %r)" % (where, i, name, operand, arg, code.co_cellvars[:5]))
        elif cls == "free":
            j = arg - ncell
            if j < 0 or j >= len(code.co_freevars) or code.co_freevars[j] != operand:
                v.violate("operand_resolves_wrong", "free", "%s #%d %s %r -> %d (cells %d, frees %r)" % (where, i, name, operand, arg, ncell, code.co_freevars))
        elif cls == "const":
            if arg >= len(code.co_consts):
                v.violate("operand_resolves_wrong", "const_outside", "%s #%d -> co_consts[%d] of %d" % (where, i, arg, len(code.co_consts)))
            else:
                got = code.co_consts[arg]
                if operand[0] == "code":
                    if not isinstance(got, CodeType):
                        v.violate("operand_resolves_wrong", "const_code", "%s #%d" % (where, i))
                else:
                    if isinstance(got, CodeType) or refs.ckey(got) != refs.ckey(operand[1]):
                        v.violate("operand_resolves_wrong", "const_merged", "%s #%d: given %r, co_consts[%d] = %r" % (where, i, operand[1], arg, got))
                    try:
                        hk = refs.hkey(refs.ckey(operand[1]))
                        pk = repr(operand[1]) if not isinstance(operand[1], (tuple, frozenset)) else None
                        for other_key, other_val in list(seen_keys.items())[:50]:
                            if other_key != hk:
                                try:
                                    if other_val == operand[1]:
                                        merge_prone = True
                                except Exception:
                                    pass
                        seen_keys[hk] = operand[1]
                    except Exception:
                        pass
        elif cls == "noarg":
            pass
        else:
            if arg != operand:
                v.violate("operand_resolves_wrong", "int", "%s #%d %s %r -> %r" % (where, i, name, operand, arg))
        # (4) lines at the first unit and at the opcode unit
        if line is not None:
            if lm[first] != line or lm[off] != line:
                v.violate("line_wrong", "first_unit" if lm[first] != line else "opcode_unit",
                          "%s #%d %s: given line %r, CPython reports %r / %r" % (where, i, name, line, lm[first], lm[off]))
        elif AT310:
            if lm[first] is not None or lm[off] is not None:
                v.violate("line_wrong", "none_line_has_line", "%s #%d %s: given no line, CPython reports %r" % (where, i, name, lm[first]))
    # (5) header
    params = _expected_params(spec)
    hdr = refs.code_header(code)
    if list(code.co_varnames[:len(params)]) != params:
        v.violate("header", "varnames_prefix", "%s: %r vs params %r" % (where, code.co_varnames[:len(params) + 2], params))
    fl = code.co_flags
    want_flags = 0
    if spec.get("fn") is not None:
        a = spec["fn"]["args"]
        want_flags |= refs.CO_OPTIMIZED | refs.CO_NEWLOCALS
        if a.get("va"):
            want_flags |= refs.CO_VARARGS
        if a.get("vk"):
            want_flags |= refs.CO_VARKEYWORDS
        kind = spec["fn"].get("kind")
        want_flags |= {"GENERATOR": refs.CO_GENERATOR, "COROUTINE": refs.CO_COROUTINE, "ASYNC_GENERATOR": refs.CO_ASYNC_GENERATOR}.get(kind, 0)
        if code.co_argcount != len(a.get("po", [])) + len(a.get("pk", [])) or code.co_kwonlyargcount != len(a.get("ko", [])) \
                or getattr(code, "co_posonlyargcount", 0) != len(a.get("po", [])):
            v.violate("header", "argcounts", "%s: %d/%d/%d" % (where, code.co_argcount, getattr(code, "co_posonlyargcount", 0), code.co_kwonlyargcount))
        doc = spec["fn"].get("doc")
        c0 = code.co_consts[0] if code.co_consts else None
        if doc is not None:
            if type(c0) is not str or c0 != doc:
                v.violate("header", "docstring_slot", "%s: docstring %r but co_consts[0] = %r" % (where, doc, c0))
        elif type(c0) is str:
            v.violate("header", "docstring_slot", "%s: no docstring given but co_consts[0] = %r would be __doc__" % (where, c0))
    else:
        if code.co_argcount or code.co_kwonlyargcount:
            v.violate("header", "argcounts", "%s: non-function with arguments" % where)
    if not code.co_freevars and not code.co_cellvars:
        want_flags |= refs.CO_NOFREE
    if spec.get("fa"):
        import __future__
        want_flags |= __future__.annotations.compiler_flag
    if fl != want_flags:
        v.violate("header", "flags", "%s: co_flags %#x, described %#x" % (where, fl, want_flags))
    if list(code.co_freevars) != list(spec.get("freevars", [])):
        v.violate("header", "freevars", "%s: %r" % (where, code.co_freevars))
    for fld, want in (("co_name", spec.get("name", "built")), ("co_filename", spec.get("filename", "<built>")),
                      ("co_firstlineno", spec.get("first_line", 1)), ("co_stacksize", spec.get("stacksize", 1)),
                      ("co_nlocals", len(code.co_varnames))):
        if getattr(code, fld) != want:
            v.violate("header", fld, "%s: %r vs %r" % (where, getattr(code, fld), want))
    # (6) decode again: equal up to normalization, on the flattened instruction stream
    try:
        back = L.CodeData.from_code(code).normalize()
        want = cd.normalize()
        d = _stream_diff(L, want, back)
        if d:
            v.violate("redecode_differs", d[0], "%s: %s" % (where, d[1]))
    except Exception as e:
        v.violate("redecode_raises", exc_sig(e), "%s: %s" % (where, exc_detail(e)))
    if wide_jump:
        v.features["wide_jump"] += 1
    if big_table:
        v.features["table_gt256"] += 1
    if merge_prone:
        v.features["merge_prone_constants"] += 1
    if big_delta:
        v.features["line_delta_gt127"] += 1
    if any(u[3] >= 65536 for u in us):
        v.features["operand_3_bytes"] += 1
    if spec.get("fn") is not None and spec["fn"].get("doc") is None and any(f[1] == "const" and f[2][0] == "const" and type(f[2][1]) is str for f in flat[:1]):
        v.features["first_const_str_no_docstring"] += 1
    return bool((nblocks >= 2 and wide_jump) or big_table or merge_prone or big_delta)


def _stream(L, cd):
    """flattened instruction stream with jumps as instruction indices; nested CodeData
    constants are flattened recursively (hand-built blocks need not be jump-target aligned)"""
    starts = []
    n = 0
    for blk in cd.blocks:
        starts.append(n)
        n += len(blk)
    out = []
    for blk in cd.blocks:
        for ins in blk:
            a = ins.arg
            if isinstance(a, L.Jump):
                a = ("jump", starts[a.target] if 0 <= a.target < len(starts) else None, a.relative)
            elif isinstance(a, L.Constant) and isinstance(a.constant, L.CodeData):
                sub = a.constant
                a = ("code", tuple((f, getattr(sub, f)) for f in ("filename", "first_line_number", "name", "stacksize", "type",
                                                                  "freevars", "future_annotations")), tuple(_stream(L, sub)))
            out.append((ins.name, a, ins.line_number))
    return out


def _nested_streams_equal(x, y):
    """compare two stream operands; for nested code: recursively, with the <=3.9 None-line leniency"""
    if isinstance(x, tuple) and isinstance(y, tuple) and x and y and x[0] == "code" and y[0] == "code":
        if x[1] != y[1] or len(x[2]) != len(y[2]):
            return False
        for p, q in zip(x[2], y[2]):
            if p[0] != q[0] or not _nested_streams_equal(p[1], q[1]):
                return False
            if p[2] != q[2] and not (p[2] is None and not AT310):
                return False
        return True
    return x == y


def _stream_diff(L, a, b):
    for f in ("filename", "first_line_number", "name", "stacksize", "type", "freevars", "future_annotations"):
        if getattr(a, f) != getattr(b, f):
            return ("header_" + f, "%r vs %r" % (getattr(a, f), getattr(b, f)))
    sa, sb = _stream(L, a), _stream(L, b)
    if len(sa) != len(sb):
        return ("length", "%d vs %d" % (len(sa), len(sb)))
    for i, (x, y) in enumerate(zip(sa, sb)):
        if x != y:
            fld = "name" if x[0] != y[0] else ("arg" if not _nested_streams_equal(x[1], y[1]) else "line")
            if fld == "line" and (x[2] is None and not AT310 or x[2] == y[2]):
                continue  # <=3.9 cannot express "no line": any line may come back
            return ("instruction_" + fld, "#%d given %.200r, decoded again %.200r" % (i, x, y))
    return None


# ---------------------------------------------------------------------- override edits (C03 second clause)
@op("c03_edit")
def op_c03_edit(args):
    """decoded data with one generated edit: to_code() either raises or every table
    operand still resolves inside its table to the value the operand object names"""
    L = lib()
    v = Verdict()
    code = compile_case(args["case"])
    allc = [c for _p, c in refs.walk_codes(code)]
    c = allc[args.get("pick", 0) % len(allc)]
    try:
        cd = L.CodeData.from_code(c)
    except Exception:
        raise Reject("from_code raises")
    flat = [(bi, ii) for bi, blk in enumerate(cd.blocks) for ii in range(len(blk))]
    edit = args["edit"]
    kind = edit["kind"]
    k = edit.get("k", 0)

    def with_blocks(fn):
        return dataclasses.replace(cd, blocks=tuple(tuple(fn(bi, ii, ins) for ii, ins in enumerate(blk) if fn(bi, ii, ins) is not None) for bi, blk in enumerate(cd.blocks)))

    bi0, ii0 = flat[k % len(flat)]
    if kind == "drop_instruction":
        if len(cd.blocks[bi0]) < 2:
            raise Reject("would empty a block")
        new = with_blocks(lambda bi, ii, ins: None if (bi, ii) == (bi0, ii0) else ins)
    elif kind == "drop_additional_args":
        if not cd._additional_args:
            raise Reject("nothing to drop")
        new = dataclasses.replace(cd, _additional_args=())
    elif kind in ("clear_override", "change_override"):
        cands = [(bi, ii) for bi, ii in flat if getattr(cd.blocks[bi][ii].arg, "_index_override", None) is not None]
        if not cands:
            raise Reject("no override")
        tb, ti = cands[k % len(cands)]
        newval = None if kind == "clear_override" else edit.get("to", 0)

        def fn(bi, ii, ins):
            if (bi, ii) == (tb, ti):
                return dataclasses.replace(ins, arg=dataclasses.replace(ins.arg, _index_override=newval))
            return ins
        new = with_blocks(fn)
    elif kind == "duplicate_instruction":
        blk = list(cd.blocks[bi0])
        blk.insert(ii0, blk[ii0])
        new = dataclasses.replace(cd, blocks=cd.blocks[:bi0] + (tuple(blk),) + cd.blocks[bi0 + 1:])
    elif kind == "colliding_overrides":
        # two look-alike constants (== but different constant keys) pinned to the same fresh slot
        pairs = [(1, True), (0.0, -0.0), (2, 2.0), (0, False), ((1,), (True,)), (1.0, True), (frozenset([0]), frozenset([False]))]
        a, b = pairs[k % len(pairs)]
        slot = max([getattr(i.arg, "_index_override", None) or 0 for blk in cd.blocks for i in blk
                    if isinstance(i.arg, L.Constant)] + [len(c.co_consts) - 1]) + 1
        i1 = L.Instruction("LOAD_CONST", L.Constant(a, slot), line_number=cd.first_line_number)
        i2 = L.Instruction("LOAD_CONST", L.Constant(b, slot), line_number=cd.first_line_number)
        new = dataclasses.replace(cd, blocks=((i1, i2) + cd.blocks[0],) + cd.blocks[1:])
    elif kind == "lone_override":
        # a hand-written operand with a dangling position
        ins = L.Instruction("LOAD_NAME", L.Name("dangling", edit.get("to", 5)), line_number=cd.first_line_number)
        blk = (ins,) + cd.blocks[0]
        new = dataclasses.replace(cd, blocks=(blk,) + cd.blocks[1:])
    else:
        raise Reject("unknown edit")
    v.features["edit_" + kind] += 1
    v.info["nontrivial"] = True
    try:
        r = new.to_code()
    except Exception as e:
        v.features["edit_to_code_raised"] += 1
        return v.result()
    v.features["edit_to_code_returned"] += 1
    # every table operand must resolve inside its table to the value its operand object names
    us = refs.units(r.co_code)
    nflat = [ins for blk in new.blocks for ins in blk]
    if len(us) != len(nflat):
        v.violate("edit_instr_count", "differs", "%s" % kind)
        return v.result()
    ncell = len(r.co_cellvars)
    for i, ((first, off, opc, arg), ins) in enumerate(zip(us, nflat)):
        a = ins.arg
        bad = None
        if isinstance(a, L.Name):
            if arg >= len(r.co_names) or r.co_names[arg] != a.name:
                bad = ("name", a.name, len(r.co_names))
        elif isinstance(a, L.Varname):
            if arg >= len(r.co_varnames) or r.co_varnames[arg] != a.varname:
                bad = ("local", a.varname, len(r.co_varnames))
        elif isinstance(a, L.Cellvar):
            if arg >= ncell or r.co_cellvars[arg] != a.cellvar:
                bad = ("cell", a.cellvar, ncell)
        elif isinstance(a, L.Freevar):
            j = arg - ncell
            if j < 0 or j >= len(r.co_freevars) or r.co_freevars[j] != a.freevar:
                bad = ("free", a.freevar, len(r.co_freevars))
        elif isinstance(a, L.Constant) and not isinstance(a.constant, L.CodeData):
            if arg >= len(r.co_consts) or isinstance(r.co_consts[arg], CodeType) or refs.ckey(r.co_consts[arg]) != refs.ckey(a.constant):
                bad = ("const", a.constant, len(r.co_consts))
        if bad:
            v.violate("inconsistent_override_emitted", bad[0], "edit %s: instruction #%d %s names %r but operand %d resolves %s its table of %d entries"
                      % (kind, i, ins.name, bad[1], arg, "outside" if arg >= bad[2] else "to a different entry of", bad[2]))
            break
    return v.result()


# ---------------------------------------------------------------------- R-ASM
def _width(arg):
    return 1 if arg <= 0xFF else 2 if arg <= 0xFFFF else 3 if arg <= 0xFFFFFF else 4


def assemble(stream, extra_prefix=None):
    """stream: list of (opcode, kind, value): kind 'raw' -> value is the int operand;
    'jabs'/'jrel' -> value is the target instruction index.  Monotone width relaxation.
    Returns (bytes, [first_unit_offset per instruction], [units per instruction])."""
    n = len(stream)
    extra_prefix = extra_prefix or {}
    width = [1] * n
    for i, (opc, kind, val) in enumerate(stream):
        if kind == "raw":
            width[i] = _width(val)
        width[i] = max(width[i], 1 + extra_prefix.get(i, 0)) if extra_prefix.get(i) and kind != "raw" else width[i]
    jscale = refs.JSCALE
    while True:
        offs = [0] * (n + 1)
        for i in range(n):
            offs[i + 1] = offs[i] + 2 * width[i]
        changed = False
        args = [0] * n
        for i, (opc, kind, val) in enumerate(stream):
            if kind == "raw":
                args[i] = val
                continue
            if kind == "jabs":
                a = offs[val] // jscale
            else:
                a = (offs[val] - offs[i + 1]) // jscale
                if a < 0:
                    raise refs.HarnessError("backward relative jump")
            args[i] = a
            w = max(_width(a), 1 + extra_prefix.get(i, 0))
            if w > width[i]:
                width[i] = w
                changed = True
        if not changed:
            break
    out = bytearray()
    for i, (opc, kind, val) in enumerate(stream):
        a = args[i]
        for k in range(width[i] - 1, 0, -1):
            out += bytes([opcode.EXTENDED_ARG, (a >> (8 * k)) & 0xFF])
        out += bytes([opc, a & 0xFF])
    return bytes(out), offs[:n], width


def _perm(n, seed, keep_first=0):
    """deterministic permutation of range(n) keeping the first keep_first in place"""
    idx = list(range(keep_first, n))
    s = seed
    for i in range(len(idx) - 1, 0, -1):
        s = (s * 1103515245 + 12345) & 0x7FFFFFFF
        j = s % (i + 1)
        idx[i], idx[j] = idx[j], idx[i]
    return list(range(keep_first)) + idx


def make_variant(code, recipe, depth=0):
    """another serialization of the same code: permuted tables with operands renumbered,
    extra unreferenced entries, redundant EXTENDED_ARG prefixes on jumps, CO_NESTED toggled;
    nested code objects are varied recursively.  Self-checked with R-SYM by the caller."""
    us = refs.units(code.co_code)
    starts = {u[0]: i for i, u in enumerate(us)}
    hdr = refs.code_header(code)
    seed = recipe.get("seed", 1) + depth * 7919
    ncell = len(code.co_cellvars)
    consts = [make_variant(k, recipe, depth + 1) if isinstance(k, CodeType) else k for k in code.co_consts]
    keep0 = 1 if (refs.is_function_like(code) and consts and type(consts[0]) is str) or \
        (refs.is_function_like(code) and consts) else 0
    # slot 0 of co_consts stays in place for function-like code: a string moved there
    # would become the docstring (that is semantics, not serialization)
    pc = _perm(len(consts), seed, keep0) if recipe.get("perm_consts") else list(range(len(consts)))
    pn = _perm(len(code.co_names), seed + 1) if recipe.get("perm_names") else list(range(len(code.co_names)))
    pv = _perm(len(code.co_varnames), seed + 2, hdr["nparams"]) if recipe.get("perm_locals") else list(range(len(code.co_varnames)))
    pcell = _perm(ncell, seed + 3) if recipe.get("perm_cells") else list(range(ncell))

    def inv(p):
        r = [0] * len(p)
        for new, old in enumerate(p):
            r[old] = new
        return r
    ic, in_, iv, icell = inv(pc), inv(pn), inv(pv), inv(pcell)
    new_consts = [consts[o] for o in pc]
    new_names = [code.co_names[o] for o in pn]
    new_vars = [code.co_varnames[o] for o in pv]
    new_cells = [code.co_cellvars[o] for o in pcell]
    k = recipe.get("extra", 0)
    for i in range(k):
        new_consts.append(987654321 + i)
        new_names.append("zz_extra%d" % i)
        new_vars.append("zz_loc%d" % i)
    extra_cells = recipe.get("extra_cells", 0)
    for i in range(extra_cells):
        new_cells.append("zz_cell%d" % i)
    ncell2 = len(new_cells)
    stream = []
    changed_operand = False
    for idx, (first, off, opc, arg) in enumerate(us):
        if opc in refs.HASJABS or opc in refs.HASJREL:
            d = refs.jump_dest(opc, arg, off)
            if d not in starts:
                raise Reject("jump into an instruction")
            stream.append((opc, "jrel" if opc in refs.HASJREL else "jabs", starts[d]))
            continue
        new = arg
        if opc in refs.HASCONST:
            new = ic[arg]
        elif opc in refs.HASNAME:
            new = in_[arg]
        elif opc in refs.HASLOCAL:
            new = iv[arg]
        elif opc in refs.HASFREE:
            new = icell[arg] if arg < ncell else (arg - ncell) + ncell2
        if new != arg:
            changed_operand = True
        stream.append((opc, "raw", new))
    extra_prefix = {}
    if recipe.get("prefix_jumps"):
        jumps = [i for i, s in enumerate(stream) if s[1] != "raw"]
        for j in jumps[::max(1, recipe.get("prefix_every", 2))]:
            extra_prefix[j] = 1
    b, offs, widths = assemble(stream, extra_prefix)
    # line table for the new layout: every instruction keeps the line of its first unit
    lines = [refs.addr2line(code, u[0]) for u in us]
    if AT310:
        table = linemodels.model_linetable([(w, ln) for w, ln in zip(widths, lines)], code.co_firstlineno)
    else:
        table = linemodels.model_lnotab([(w, ln, False) for w, ln in zip(widths, lines)], code.co_firstlineno,
                                        "38" if V <= (3, 8) else "39")
    flags = code.co_flags
    if recipe.get("toggle_nested"):
        flags ^= refs.CO_NESTED
    if new_cells or code.co_freevars:
        flags &= ~refs.CO_NOFREE
    kw = {"co_code": b, "co_consts": tuple(new_consts), "co_names": tuple(new_names), "co_varnames": tuple(new_vars),
          "co_nlocals": len(new_vars), "co_cellvars": tuple(new_cells), "co_flags": flags}
    kw["co_linetable" if AT310 else "co_lnotab"] = table
    try:
        out = code_replace(code, **kw)
    except (ValueError, TypeError) as e:
        raise Reject("constructor refused the variant: %s" % e)
    make_variant.changed = getattr(make_variant, "changed", False) or changed_operand or bool(extra_prefix)
    return out


@op("c06_variants")
def op_c06_variants(args):
    L = lib()
    v = Verdict()
    code = compile_case(args["case"])
    try:
        base = L.CodeData.from_code(code).normalize()
    except Exception:
        raise Reject("from_code/normalize raises on the original (C01/C05's business)")
    sym0 = refs.sym(code)
    norms = []
    for r in args["recipes"]:
        make_variant.changed = False
        var = make_variant(code, r)
        # self-check: same symbolic reading (NESTED/NOFREE may differ by construction)
        d = refs.sym_diff(sym0, refs.sym(var), flag_mask=refs.CO_NESTED | refs.CO_NOFREE, opcode_unit_lines=False)
        if d:
            raise refs.HarnessError("R-ASM variant is not the same code: %r" % (d[:2],))
        if make_variant.changed:
            v.features["variant_changed_operands"] += 1
        if r.get("extra") or r.get("extra_cells"):
            v.features["variant_extra_entries"] += 1
        if r.get("prefix_jumps"):
            v.features["variant_redundant_prefix"] += 1
        if r.get("toggle_nested"):
            v.features["variant_nested_flag"] += 1
        try:
            nv = L.CodeData.from_code(var).normalize()
        except Exception as e:
            v.violate("variant_from_code_raises", exc_sig(e), "recipe %r: %s" % (r, exc_detail(e)))
            continue
        norms.append((r, nv))
        if nv != base:
            hint = _why_differs(L, base, nv)
            v.violate("variant_not_canonical", hint[0], "recipe %r: normalize() of a serialization variant differs from the original's: %s" % (r, hint[1]))
        elif hash(nv) != hash(base):
            v.violate("variant_not_canonical", "hash", "equal normal forms, different hashes")
    v.info["nontrivial"] = bool(v.features.get("variant_changed_operands"))
    return v.result()


def _why_differs(L, a, b):
    d = _stream_diff(L, a, b)
    if d:
        return d
    if len(a.blocks) != len(b.blocks):
        return ("blocks", "%d vs %d blocks" % (len(a.blocks), len(b.blocks)))
    return ("other", "")


# ---------------------------------------------------------------------- C05 (b) behavioural comparison
class _Timeout(BaseException):
    pass


_alarms = [0]


def _alarm(signum, frame):
    # the executed code may swallow the exception (bare except in a loop): the timer
    # re-fires every 0.3 s; after ~6 s of that the worker gives up and exits, the pool
    # restarts it and the case is counted inconclusive
    _alarms[0] += 1
    if _alarms[0] > 14:
        import os
        os._exit(3)
    raise _Timeout()


PRELUDE = ("x = 3\ny = 2\nz = 1\na = [1, 2, 3]\nb = {'k': 1}\nc = (1, 2)\nE = ValueError\nF = KeyError\nB = object\n"
           "def f(*p, **k):\n    return len(p) + len(k)\ndef g(*p, **k):\n    return p\n")


def _run(code, filename):
    """execute under settrace; returns (stdout, result summary, events)"""
    events = []
    out = io.StringIO()

    def tracer(frame, event, arg):
        if frame.f_code.co_filename == filename:
            if len(events) < 20000:
                events.append((event, frame.f_code.co_name, frame.f_lineno))
            return tracer
        return None
    g = {"__name__": "__verif__", "print": lambda *a, **k: out.write(" ".join(map(_safe_repr, a)) + "\n")}
    exc = None
    old_limit = sys.getrecursionlimit()
    sys.setrecursionlimit(200)
    _alarms[0] = 0
    signal.signal(signal.SIGALRM, _alarm)
    signal.setitimer(signal.ITIMER_REAL, 2.0, 0.3)
    timed_out = False
    try:
        sys.settrace(tracer)
        try:
            exec(code, g)
        finally:
            sys.settrace(None)
    except _Timeout:
        timed_out = True
    except BaseException as e:  # noqa
        tb = e.__traceback__
        lines = []
        while tb is not None:
            if tb.tb_frame.f_code.co_filename == filename:
                lines.append(tb.tb_lineno)
            tb = tb.tb_next
        exc = (type(e).__name__, _safe_repr(e.args)[:200], lines)
    finally:
        signal.setitimer(signal.ITIMER_REAL, 0, 0)
        sys.setrecursionlimit(old_limit)
    glob = {}
    for k in sorted(g):
        if k.startswith("__") or k == "print":
            continue
        val = g[k]
        if isinstance(val, (int, float, str, bytes, bool, type(None), tuple, list, dict, set, frozenset, complex)):
            glob[k] = _safe_repr(val)[:200]
        else:
            glob[k] = "<%s>" % type(val).__name__
    return out.getvalue()[:5000], (exc, glob), events, timed_out


def _nonsplit_zero_width(c):
    """<=3.9: does co_lnotab have a zero-width entry that is not the continuation of a split line
    delta (same sign as, and following, a +127 / -128 entry)?"""
    t = c.co_lnotab
    prev = None
    for i in range(0, len(t), 2):
        bd = t[i]
        ld = t[i + 1] - 256 if t[i + 1] >= 128 else t[i + 1]
        if bd == 0 and i > 0:
            cont = prev in (127, -128) and ld != 0 and (ld > 0) == (prev > 0)
            if not cont:
                return True
        prev = ld
    return False


def _dedup_lines(events):
    """drop a line event that repeats the previous event of the SAME frame (events of called
    frames may lie in between: `x = (f() or g(\n0,\n**x))`)"""
    out = []
    last = {}
    for e in events:
        if e[0] == "line" and last.get(e[1]) == e:
            continue
        last[e[1]] = e
        out.append(e)
    return out


def _safe_repr(x, depth=0):
    """repr that does not depend on addresses or on set iteration order"""
    import re
    try:
        if depth < 6:
            if isinstance(x, (set, frozenset)):
                return "%s{%s}" % (type(x).__name__, ", ".join(sorted(_safe_repr(i, depth + 1) for i in x)))
            if type(x) in (list, tuple):
                inner = ", ".join(_safe_repr(i, depth + 1) for i in x)
                return ("[%s]" if type(x) is list else "(%s)") % inner
            if type(x) is dict:
                return "{%s}" % ", ".join("%s: %s" % (_safe_repr(k, depth + 1), _safe_repr(val, depth + 1)) for k, val in x.items())
        r = repr(x)
    except BaseException:  # noqa
        return "<unreprable>"
    # addresses differ between runs
    return re.sub(r" at 0x[0-9a-f]+", " at 0x?", r)


@op("c05_exec")
def op_c05_exec(args):
    L = lib()
    v = Verdict()
    case = dict(args["case"])
    case["src"] = PRELUDE + case["src"]
    case["filename"] = "<exec-safe>"
    code = compile_case(case)
    try:
        n = L.CodeData.from_code(code).normalize().to_code()
    except Exception as e:
        raise Reject("normalize/to_code raises (symbolic part reports it): %s" % exc_sig(e))
    try:
        return _c05_exec_body(v, code, n)
    except _Timeout:
        return {"status": "inconclusive", "why": "alarm outside exec", "violations": [], "features": {}, "info": {}}


def _c05_exec_body(v, code, n):
    o1, r1, e1, t1 = _run(code, "<exec-safe>")
    if t1:
        return {"status": "inconclusive", "why": "time budget", "violations": [], "features": {}, "info": {}}
    # self-consistency filter: a program whose behaviour depends on object addresses (iteration order
    # of a set of functions, id(), default hashes) differs between two runs of the SAME code object;
    # such a program cannot tell the two code objects apart
    o1b, r1b, e1b, t1b = _run(code, "<exec-safe>")
    if t1b or (o1, r1, e1) != (o1b, r1b, e1b):
        v.features["nondeterministic_program"] += 1
        return {"status": "inconclusive", "why": "the original behaves differently on two runs", "violations": [],
                "features": dict(v.features), "info": {}}
    o2, r2, e2, t2 = _run(n, "<exec-safe>")
    if t2:
        # the original terminated within the budget: give the normalized one a second chance before judging
        o2, r2, e2, t2 = _run(n, "<exec-safe>")
        if t2:
            return {"status": "inconclusive", "why": "time budget (normalized)", "violations": [], "features": {}, "info": {}}
    if o1 != o2:
        v.violate("behaviour", "stdout", "stdout differs: %.200r vs %.200r" % (o1, o2))
    if r1[0] != r2[0]:
        v.violate("behaviour", "exception", "exception/traceback lines differ: %r vs %r" % (r1[0], r2[0]))
    if r1[1] != r2[1]:
        ks = [k for k in set(r1[1]) | set(r2[1]) if r1[1].get(k) != r2[1].get(k)]
        v.violate("behaviour", "globals", "final globals differ in %r: %r vs %r" % (ks[:3], r1[1].get(ks[0]), r2[1].get(ks[0])))
    if e1 != e2:
        i = 0
        while i < min(len(e1), len(e2)) and e1[i] == e2[i]:
            i += 1
        sub = "trace_events"
        if not AT310 and _dedup_lines(e1) == _dedup_lines(e2) and len(e1) > len(e2):
            # <=3.9: zero-width lnotab entries (a +k/-k pair at one address, left by the peephole
            # optimizer) open a new line window, so the tracer reports the SAME line twice in a row;
            # normalization drops those entries.  Classified only if that is the whole difference
            # and the original really has such entries.
            if any(_nonsplit_zero_width(c) for _p, c in refs.walk_codes(code)):
                sub = "trace_events:repeated_line_event_from_zero_width_entry"
            else:
                import ops_prog
                if any(ops_prog.mid_instruction_entries(c)[0] for _p, c in refs.walk_codes(code)):
                    # the other known <=3.9 finding: an lnotab entry inside an instruction opens a line
                    # window at its opcode unit, so the tracer reports a line there (and the previous
                    # line again afterwards); the normalized code has the entry at the next instruction
                    sub = "trace_events:repeated_line_event_from_mid_instruction_entry"
        v.violate("behaviour", sub, "trace events differ at #%d: %r vs %r" % (i, e1[i:i + 2], e2[i:i + 2]))
    nline = sum(1 for e in e1 if e[0] == "line")
    ncodes = len(set(e[1] for e in e1))
    v.features["executed_programs"] += 1
    v.features["line_events"] += nline
    if r1[0] is not None:
        v.features["raised_" + r1[0][0]] += 1
    v.info["nontrivial"] = nline >= 5 and ncodes >= 2
    return v.result()
