# Constants (G-CONST builder), code_replace helper, C08 ops.  py3.7, stdlib only.
import dataclasses
import json
import marshal
import struct
import sys
import types

import refs
from ops import Reject, Verdict, compile_case, exc_detail, exc_sig, lib, op

CodeType = types.CodeType
V = sys.version_info[:2]


def h2f(h):
    return struct.unpack(">d", bytes.fromhex(h))[0]


def build_const(spec):
    k = spec[0]
    if k == "none":
        return None
    if k == "ell":
        return Ellipsis
    if k == "bool":
        return bool(spec[1])
    if k == "int":
        return int(spec[1])
    if k == "float":
        return h2f(spec[1])
    if k == "complex":
        return complex(h2f(spec[1]), h2f(spec[2]))
    if k == "str":
        return spec[1]
    if k == "bytes":
        return bytes.fromhex(spec[1])
    if k == "tuple":
        return tuple(build_const(x) for x in spec[1])
    if k == "fset":
        return frozenset(build_const(x) for x in spec[1])
    raise ValueError(k)


_CODE_FIELDS_37 = ["co_argcount", "co_kwonlyargcount", "co_nlocals", "co_stacksize", "co_flags", "co_code", "co_consts",
                   "co_names", "co_varnames", "co_filename", "co_name", "co_firstlineno", "co_lnotab", "co_freevars",
                   "co_cellvars"]


def code_replace(code, **kw):
    """code.replace for every interpreter (3.7 has no .replace)"""
    if hasattr(code, "replace"):
        return code.replace(**kw)
    vals = [kw.get(f, getattr(code, f)) for f in _CODE_FIELDS_37]
    return CodeType(*vals)


# ---------------------------------------------------------------------- C08 (a): constants
def _check_ckey_model(a, b):
    """R-CKEY must partition NaN-free values exactly as _PyCode_ConstantKey"""
    if refs.contains_nan(a) or refs.contains_nan(b):
        return
    ka = refs.cpython_constant_key(a)
    kb = refs.cpython_constant_key(b)
    if (ka == kb) != (refs.ckey(a) == refs.ckey(b)):
        raise refs.HarnessError("R-CKEY disagrees with _PyCode_ConstantKey on %r / %r" % (a, b))


def _mini_code_data(L, const, extra=None, ovr=5):
    ins = (L.Instruction("LOAD_CONST", L.Constant(const), line_number=1), L.Instruction("RETURN_VALUE", line_number=1))
    return L.CodeData(blocks=(ins,), filename="f", first_line_number=1, name="n", stacksize=1,
                      _additional_args=(L.Constant(None, 1), L.Constant(2, 2), L.Constant(3, 3), L.Constant(4, 4),
                                        L.Constant(extra, ovr), L.Constant("other", 11 - ovr)) if extra is not None else ())


def frozen_walk(L, x, v, where, seen=None, depth=0):
    """every dataclass instance reachable from x rejects setattr/delattr and has
    no list/dict/set field values"""
    if seen is None:
        seen = set()
    if id(x) in seen or depth > 12:
        return
    seen.add(id(x))
    if dataclasses.is_dataclass(x) and not isinstance(x, type):
        fs = dataclasses.fields(x)
        for f in fs[:2]:
            try:
                setattr(x, f.name, getattr(x, f.name))
                v.violate("mutable", "setattr", "%s: %s.%s assignable" % (where, type(x).__name__, f.name))
            except dataclasses.FrozenInstanceError:
                pass
            except Exception as e:
                v.violate("mutable", "setattr_other_exc", "%s: %s" % (where, exc_detail(e)))
        try:
            delattr(x, fs[0].name)
            v.violate("mutable", "delattr", "%s: %s.%s deletable" % (where, type(x).__name__, fs[0].name))
        except dataclasses.FrozenInstanceError:
            pass
        except Exception as e:
            v.violate("mutable", "delattr_other_exc", "%s: %s" % (where, exc_detail(e)))
        for f in fs:
            frozen_walk(L, getattr(x, f.name), v, where, seen, depth + 1)
    elif isinstance(x, (list, dict, set, bytearray)):
        v.violate("mutable", "container", "%s: field value of type %s" % (where, type(x).__name__))
    elif isinstance(x, (tuple, frozenset)):
        for i in x:
            frozen_walk(L, i, v, where, seen, depth + 1)


def _pair_checks(L, v, x, y, expect_eq, where, level):
    try:
        e1 = x == y
        e2 = y == x
    except Exception as e:
        v.violate("eq_raises", exc_sig(e), "%s: %s" % (where, exc_detail(e)))
        return None
    if e1 != e2:
        v.violate("eq_not_symmetric", level, where)
    if expect_eq is not None and bool(e1) != expect_eq:
        v.violate("eq_wrong", "%s:%s" % (level, "should_be_equal" if expect_eq else "should_differ"), where)
    if (x != y) == bool(e1):
        v.violate("ne_inconsistent", level, where)
    try:
        hx, hy = hash(x), hash(y)
    except Exception as e:
        v.violate("hash_raises", exc_sig(e), "%s: %s" % (where, exc_detail(e)))
        return e1
    if e1 and hx != hy:
        v.violate("hash_contract", level, "%s: equal values, different hashes" % where)
    if e1:
        if len({x, y}) != 1:
            v.violate("set_contract", level, "%s: equal values are two set members" % where)
        if {x: 1}.get(y) != 1:
            v.violate("dict_contract", level, "%s: equal value not found as dict key" % where)
    return e1


@op("c08_consts")
def op_c08_consts(args):
    L = lib()
    v = Verdict()
    vals = [build_const(s) for s in args["group"]]
    # rebuild through marshal as well: fresh object identities (NaN objects!)
    vals2 = [marshal.loads(marshal.dumps(x)) for x in vals]
    nontrivial = False
    n = len(vals)
    eqm = {}
    for i in range(n):
        for j in range(n):
            a = vals[i]
            b = vals2[j]
            _check_ckey_model(a, b)
            expect = refs.ckey(a) == refs.ckey(b)
            where = "%r vs %r" % (a, b)
            if len(where) > 300:
                where = where[:300]
            raw_eq = False
            try:
                raw_eq = a == b
            except Exception:
                pass
            if expect or raw_eq or refs.contains_nan(a) or refs.contains_nan(b):
                nontrivial = True
                v.features["pair_equal" if expect else ("pair_raw_equal_but_distinct" if raw_eq else "pair_nan_unequal")] += 1
            if refs.contains_nan(a) or refs.contains_nan(b):
                v.features["pair_with_nan"] += 1
            ca, cb = L.Constant(a), L.Constant(b)
            eqm[i, j] = _pair_checks(L, v, ca, cb, expect, where, "Constant")
            _pair_checks(L, v, L.Constant(a, 3), L.Constant(b, 3), expect, where, "Constant+override")
            ia = L.Instruction("LOAD_CONST", ca, line_number=1)
            ib = L.Instruction("LOAD_CONST", cb, line_number=1)
            _pair_checks(L, v, ia, ib, expect, where, "Instruction")
            da, db = _mini_code_data(L, a), _mini_code_data(L, b)
            r = _pair_checks(L, v, da, db, expect, where, "CodeData")
            _pair_checks(L, v, _mini_code_data(L, 0, a), _mini_code_data(L, 0, b), expect, where, "CodeData._additional_args")
            # nested: a CodeData holding the CodeData as a constant
            _pair_checks(L, v, _mini_code_data(L, da), _mini_code_data(L, db), expect, where, "CodeData.nested")
            # same values at swapped table positions: if the library calls them equal they must encode identically
            pa, pb = _mini_code_data(L, 0, (a, 1), 5), _mini_code_data(L, 0, (a, 1), 6)
            if _pair_checks(L, v, pa, pb, None, where, "CodeData_swapped_positions"):
                v.violate("equal_but_encode_differently", "index_override_ignored", where)
            if r:
                try:
                    ta, tb = da.to_code(), db.to_code()
                    d = refs.ident_diff(ta, tb, nan_bits=False, limit=3)
                    if d:
                        v.violate("equal_but_encode_differently", d[0][1], "%s: %s" % (where, d[0][2]))
                except Exception as e:
                    v.violate("to_code_raises", exc_sig(e), "%s: %s" % (where, exc_detail(e)))
    # transitivity over the group (vals[i] ~ vals2[j] relation is the same partition)
    for i in range(n):
        for j in range(n):
            for k in range(n):
                if eqm.get((i, j)) and eqm.get((j, k)) and eqm.get((i, k)) is False:
                    v.violate("eq_not_transitive", "Constant", "%r %r %r" % (vals[i], vals[j], vals[k]))
    frozen_walk(L, _mini_code_data(L, vals[0], vals[-1]), v, "mini")
    v.info["nontrivial"] = nontrivial
    return v.result()


# ---------------------------------------------------------------------- C08 (b): routes
def _json_cycle(L, d):
    return L.CodeData.from_json_data(json.loads(json.dumps(d.to_json_data(), allow_nan=False)))


@op("c08_routes")
def op_c08_routes(args):
    L = lib()
    v = Verdict()
    c1 = compile_case(args["case"])
    c2 = compile_case(args["case"])
    c3 = marshal.loads(marshal.dumps(c1))
    routes = []
    try:
        d1 = L.CodeData.from_code(c1)
        d2 = L.CodeData.from_code(c2)
        d3 = L.CodeData.from_code(c3)
    except Exception:
        raise Reject("from_code raises (C01's business)")
    routes = [("decode", d1), ("decode_again", d2), ("decode_marshal_copy", d3)]
    try:
        routes.append(("json_cycle", _json_cycle(L, d1)))
    except Exception:
        v.features["json_cycle_failed"] += 1  # C07's business
    nan = any(refs.contains_nan(k) for _p, c in refs.walk_codes(c1) for k in c.co_consts if not isinstance(k, CodeType))
    if nan:
        v.features["program_with_nan"] += 1
    same_code = not refs.ident_diff(c1, c2, nan_bits=False, limit=1) and not refs.ident_diff(c1, c3, nan_bits=False, limit=1)
    for i in range(len(routes)):
        for j in range(i + 1, len(routes)):
            na, a = routes[i]
            nb, b = routes[j]
            where = "%s vs %s" % (na, nb)
            e = _pair_checks(L, v, a, b, True if same_code else None, where, "routes")
            if e:
                try:
                    d = refs.ident_diff(a.to_code(), b.to_code(), nan_bits=False, limit=3)
                    if d:
                        v.violate("equal_but_encode_differently", d[0][1], "%s: %s %s" % (where, d[0][0], d[0][2]))
                except Exception as ex:
                    v.features["to_code_failed"] += 1
    # normalized forms by two routes
    try:
        n1 = d1.normalize()
        n2 = routes[-1][1].normalize()
        _pair_checks(L, v, n1, n2, True, "normalize(decode) vs normalize(%s)" % routes[-1][0], "routes_normalized")
        # a value differs from its normalization exactly when some private field is set: no expectation, but the
        # relation must still be symmetric / hash-consistent
        _pair_checks(L, v, d1, n1, None, "decode vs normalized", "routes_mixed")
    except Exception as ex:
        v.violate("normalize_raises", exc_sig(ex), exc_detail(ex))
    # all nested values hashable, frozen
    try:
        for sub in d1.all_code_data():
            hash(sub)
    except Exception as ex:
        v.violate("hash_raises", exc_sig(ex), exc_detail(ex))
    frozen_walk(L, d1, v, "decoded")
    if len(routes) == 4:
        frozen_walk(L, routes[3][1], v, "json_loaded")
    v.info["nontrivial"] = True
    v.features["route_sets"] += 1
    return v.result()
