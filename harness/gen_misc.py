# Smaller dedicated strategies: C04 signature shapes, C11 flag words / header
# alterations.  Driver side.
import itertools

from hypothesis import strategies as st

KINDS = ["def", "lambda", "async def", "generator", "async generator"]
PARAMLESS = ["listcomp", "setcomp", "dictcomp", "genexpr", "class", "module"]
DOCS = ["absent", "plain", "empty", "not_first", "bytes", "fstring", "surrogate", "first_const_str"]
_DOC_SRC = {"plain": "'doc'", "empty": "''", "bytes": "b'doc'", "fstring": "f'doc'", "surrogate": "'\\ud800doc'"}


def render_signature(npos, nreg, star, nkw, varkw, ndefault, names=None, star_names=("args", "kwargs")):
    names = names or ["a", "b", "c", "d", "e", "f", "g", "h", "i", "j"]
    it = iter(names)
    pos = [next(it) for _ in range(npos)]
    reg = [next(it) for _ in range(nreg)]
    kw = [next(it) for _ in range(nkw)]
    parts = []
    positional = pos + reg
    nd = min(ndefault, len(positional))
    for i, n in enumerate(positional):
        s = n + ("=%d" % i if i >= len(positional) - nd else "")
        parts.append(s)
        if npos and i == npos - 1:
            parts.append("/")
    if star == 1:
        parts.append("*" + star_names[0])
    elif kw:
        parts.append("*")
    for i, n in enumerate(kw):
        parts.append(n + ("=None" if (i + ndefault) % 2 else ""))
    if varkw:
        parts.append("**" + (star_names[1] if not (star == 1 and star_names[1] == star_names[0]) else "kwargs"))
    used = pos + reg + kw + ([star_names[0]] if star == 1 else []) + ([star_names[1]] if varkw else [])
    return ", ".join(parts), used


def render_c04(kind, doc, npos, nreg, star, nkw, varkw, ndefault, capture=0, extra_locals=0, names=None, star_names=("args", "kwargs")):
    """-> (source, min_version)"""
    minver = 8 if npos else 7
    if kind in PARAMLESS:
        if kind == "module":
            body = []
            if doc in _DOC_SRC:
                body.append(_DOC_SRC[doc])
            elif doc == "not_first":
                body += ["x = 1", "'doc'"]
            elif doc == "first_const_str":
                body.append("x = 'notdoc'")
            body.append("y = 2")
            return "\n".join(body) + "\n", 7
        if kind == "class":
            body = []
            if doc in _DOC_SRC:
                body.append(_DOC_SRC[doc])
            elif doc == "not_first":
                body += ["x = 1", "'doc'"]
            elif doc == "first_const_str":
                body.append("x = 'notdoc'")
            body.append("y = 2")
            return "class A:\n" + "\n".join(" " + b for b in body) + "\n", 7
        elt = "'s'" if doc in ("first_const_str", "plain") else ("''" if doc == "empty" else "i")
        src = {"listcomp": "[%s for i in x]", "setcomp": "{%s for i in x}", "dictcomp": "{%s: i for i in x}",
               "genexpr": "(%s for i in x)"}[kind] % elt
        return "r = " + src + "\n", 7
    sig, used = render_signature(npos, nreg, star, nkw, varkw, ndefault, names, star_names)
    if kind == "lambda":
        body = {"absent": "0", "plain": "'doc'", "empty": "''", "first_const_str": "'notdoc' + x", "not_first": "(0, 'doc')",
                "bytes": "b'doc'", "fstring": "f'doc'", "surrogate": "'\\ud800doc'"}[doc]
        if capture and used:
            body = "(lambda: %s, %s)" % (used[0], body)
        return "r = lambda %s: %s\n" % (sig, body), minver
    head = "async def" if kind in ("async def", "async generator") else "def"
    body = []
    if doc in _DOC_SRC:
        body.append(_DOC_SRC[doc])
    elif doc == "not_first":
        body += ["x = 1", "'doc'"]
    elif doc == "first_const_str":
        body.append("x = 'notdoc'")
    for i in range(extra_locals):
        body.append("loc%d = %d" % (i, i))
    if capture and used:
        for n in used[:capture]:
            body.append("def inner_%s(): return %s" % (n, n))
    if kind in ("generator", "async generator"):
        body.append("yield 1")
    elif kind == "async def":
        body.append("await z")
    else:
        body.append("return 0")
    return "%s fn(%s):\n" % (head, sig) + "\n".join(" " + b for b in body) + "\n", minver


@st.composite
def c04_cases(draw):
    kind = draw(st.sampled_from(KINDS * 3 + PARAMLESS))
    doc = draw(st.sampled_from(DOCS))
    npos = draw(st.integers(0, 3)) if draw(st.integers(0, 2)) == 0 else 0
    nreg = draw(st.integers(0, 3))
    star = draw(st.integers(0, 1))
    nkw = draw(st.integers(0, 3))
    varkw = draw(st.booleans())
    ndefault = draw(st.integers(0, 3))
    capture = draw(st.integers(0, 3))
    extra = draw(st.integers(0, 2))
    # parameter names: mostly the same few names in the same order (so that different signature
    # shapes share their leading names), sometimes permuted; *args / **kwargs share a name pool
    base = ["a", "b", "c", "d", "e", "f", "g", "h", "i", "j"]
    names = draw(st.permutations(base)) if draw(st.integers(0, 3)) == 0 else base
    star_names = (draw(st.sampled_from(["args", "opts", "rest"])), draw(st.sampled_from(["kwargs", "opts", "rest"])))
    src, mv = render_c04(kind, doc, npos, nreg, star, nkw, varkw, ndefault, capture, extra, list(names), star_names)
    return {"src": src, "mode": "exec", "optimize": draw(st.sampled_from([0, 0, 2])), "min_version": mv, "_label": "c04_shapes"}


def c04_product():
    """the complete shape product (thorough tier): 4*4*2*4*2 signature shapes x 5
    function kinds x 8 docstring shapes, plus the parameterless kinds x docstrings"""
    for kind in KINDS:
        for doc in DOCS:
            for npos, nreg, star, nkw, varkw in itertools.product(range(4), range(4), range(2), range(4), range(2)):
                src, mv = render_c04(kind, doc, npos, nreg, star, nkw, varkw, ndefault=(npos + nreg) % 3)
                yield {"src": src, "mode": "exec", "optimize": 0, "min_version": mv, "_label": "c04_product"}
    for kind in PARAMLESS:
        for doc in DOCS:
            src, mv = render_c04(kind, doc, 0, 0, 0, 0, False, 0)
            yield {"src": src, "mode": "exec", "optimize": 0, "min_version": mv, "_label": "c04_product"}


# ---------------------------------------------------------------- C11
KNOWN_BITS_ALL = [1 << i for i in range(0, 26)]


@st.composite
def flag_word_batches(draw, known_bits):
    """a batch of flag words: subsets of the known bits, single unknown bits 0-63,
    unknown + random known subset"""
    n = draw(st.integers(1, 24))
    words = []
    for _ in range(n):
        k = draw(st.integers(0, 9))
        sub = 0
        for b in draw(st.lists(st.sampled_from(known_bits), max_size=len(known_bits), unique=True)):
            sub |= b
        if k <= 5:
            words.append(sub)
        elif k <= 7:
            words.append(1 << draw(st.integers(0, 63)))
        else:
            words.append(sub | (1 << draw(st.integers(0, 63))))
    return words


@st.composite
def header_alterations(draw):
    alt = {"target": draw(st.integers(0, 15))}
    k = draw(st.integers(0, 5))
    if k <= 2:
        bits = draw(st.lists(st.integers(0, 31), min_size=1, max_size=3, unique=True))
        val = 0
        for b in bits:
            val |= 1 << b
        alt["flags_xor" if draw(st.booleans()) else "flags_or"] = val
    if k >= 2:
        fld = draw(st.sampled_from(["argcount_d", "posonly_d", "kwonly_d", "nlocals_d", "stacksize_d", "firstlineno_d"]))
        alt[fld] = draw(st.sampled_from([-2, -1, 1, 2, 3]))
    if draw(st.integers(0, 5)) == 0:
        alt["filename"] = draw(st.sampled_from(["other.py", "<hdr>.b", "x"]))
    if draw(st.integers(0, 7)) == 0:
        alt["name"] = draw(st.sampled_from(["renamed", "<lambda>", "f"]))
    alt["target"] = draw(st.integers(0, 19))
    alt["via_parent"] = draw(st.integers(0, 2)) == 0
    return alt
