# Known-finding matchers.  known_findings.jsonl is committed and is never
# written at run time.  Only entries with status "known" exclude anything; an
# entry with status "fixed" is a record and suppresses nothing.
import json
import os
import re

ROOT = os.path.dirname(os.path.dirname(os.path.abspath(__file__)))
PATH = os.path.join(ROOT, "known_findings.jsonl")


def load_all():
    out = []
    if not os.path.exists(PATH):
        return out
    with open(PATH) as f:
        for line in f:
            line = line.strip()
            if line and not line.startswith("#"):
                out.append(json.loads(line))
    return out


def load(pid):
    return [e for e in load_all() if e.get("property") == pid]


def _case_source(case):
    if isinstance(case, dict):
        if "src" in case:
            return case["src"]
        if isinstance(case.get("prog"), dict):
            return case["prog"].get("src", "")
    return ""


# ---- predicates over (case, version, violation): as specific as possible ----
def pred_barry_future(case, version, viol):
    return "barry_as_FLUFL" in _case_source(case) and "barry_as_FLUFL" in viol.get("detail", "")


def pred_always(case, version, viol):
    return True


PREDICATES = {k[5:]: v for k, v in globals().items() if k.startswith("pred_")}


def match(known, pid, case, version, viol):
    for e in known:
        if e.get("status") != "known":
            continue
        m = e.get("match", {})
        if m.get("kind") and m["kind"] != viol.get("kind"):
            continue
        if m.get("sub") and not re.fullmatch(m["sub"], viol.get("sub", "")):
            continue
        if m.get("versions") and version not in m["versions"]:
            continue
        if m.get("detail") and not re.search(m["detail"], viol.get("detail", "")):
            continue
        p = m.get("predicate")
        if p and not PREDICATES[p](case, version, viol):
            continue
        return e["id"]
    return None
