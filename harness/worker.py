# Worker process: runs on a *target* interpreter (CPython 3.7 .. 3.10, or a
# consumer-only 3.11/3.12 for C15).  Standard library only, Python 3.7 syntax.
#
# Protocol: one JSON object per line on stdin, one per line on the private
# protocol fd.  request  {"id": n, "op": name, "args": {...}}
#            response {"id": n, "ok": true, "result": {...}}
#                  or {"id": n, "ok": false, "error": "traceback"}   (harness error)
#
# The library under test is imported from VERIF_REPO (PYTHONPATH is set by the
# pool); nothing here ever writes into that directory (-B is passed).
from __future__ import print_function

import io
import json
import os
import sys
import traceback
import warnings

HERE = os.path.dirname(os.path.abspath(__file__))
if HERE not in sys.path:
    sys.path.insert(0, HERE)

warnings.simplefilter("ignore")


def _die_with_parent():
    # a worker stuck in generated code (C05 executes it) must not outlive its driver
    try:
        import ctypes
        ctypes.CDLL(None).prctl(1, 9)  # PR_SET_PDEATHSIG, SIGKILL
    except Exception:
        pass


def main():
    _die_with_parent()
    # keep the protocol channel private: anything the code under test prints
    # (C05 executes generated code, C16 runs the CLI) must not reach it.
    proto_fd = os.dup(1)
    devnull = os.open(os.devnull, os.O_WRONLY)
    os.dup2(devnull, 1)
    proto = io.open(proto_fd, "w", encoding="ascii", newline="\n")
    sys.stdout = io.open(devnull, "w")

    import ops  # registry; imports code_data lazily

    hello = {"hello": True, "version": list(sys.version_info[:3]), "pid": os.getpid()}
    try:
        hello["lib"] = ops.library_info()
    except Exception:
        hello["lib_error"] = traceback.format_exc()
    proto.write(json.dumps(hello) + "\n")
    proto.flush()

    stdin = io.open(os.dup(0), "r", encoding="ascii", newline="\n")
    # code under test must never read the protocol channel
    os.dup2(os.open(os.devnull, os.O_RDONLY), 0)
    sys.stdin = io.open(0, "r")
    for line in stdin:
        line = line.strip()
        if not line:
            continue
        req = json.loads(line)
        rid = req.get("id")
        try:
            fn = ops.REGISTRY[req["op"]]
            res = fn(req.get("args") or {})
            out = {"id": rid, "ok": True, "result": res}
        except ops.Reject as e:
            out = {"id": rid, "ok": True, "result": {"status": "reject", "why": str(e)}}
        except BaseException:  # noqa
            out = {"id": rid, "ok": False, "error": traceback.format_exc()[-4000:]}
        try:
            txt = json.dumps(out)
        except Exception:
            txt = json.dumps({"id": rid, "ok": False, "error": "unserialisable result: " + traceback.format_exc()[-2000:]})
        proto.write(txt + "\n")
        proto.flush()


if __name__ == "__main__":
    main()
