# st.one_of() de-duplicates identical strategy objects, so repeating a member does not
# weight it.  weighted() draws an explicit index instead (shrinks towards the first).
from hypothesis import strategies as st


def weighted(*pairs):
    """weighted((3, strategy_a), (1, strategy_b), ...)"""
    total = sum(w for w, _s in pairs)

    @st.composite
    def pick(draw):
        k = draw(st.integers(0, total - 1))
        for w, s in pairs:
            if k < w:
                return draw(s)
            k -= w
        return draw(pairs[-1][1])
    return pick()
