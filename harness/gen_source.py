# G-SRC: source programs.  Construction-only grammar strategy with controlled
# layout, version-aware (each case carries min_version).  Driver side.
import os

from hypothesis import strategies as st

import gen_const

BLANK_RUNS = [1, 2, 3, 126, 127, 128, 129, 254, 255, 256, 300]
PAD_SIZES = [1, 2, 30, 62, 63, 64, 65, 70, 85, 126, 127, 128, 129, 140, 170]
FILL_SIZES = [3, 20, 120, 250, 254, 255, 256, 257, 260]
GLOBALS = ["x", "y", "z", "f", "g", "a", "b", "c"]
FUTURES = ["annotations", "division", "generators", "nested_scopes", "print_function", "unicode_literals",
           "with_statement", "absolute_import", "generator_stop", "barry_as_FLUFL"]
BINOPS = ["+", "-", "*", "/", "//", "%", "**", "<<", ">>", "&", "|", "^", "@"]
CMPOPS = ["<", ">", "==", ">=", "<=", "!=", "in", "not in", "is", "is not"]
SAFE_BINOPS = ["+", "-", "*", "/", "//", "%", "&", "|", "^"]


class Scope(object):
    def __init__(self, kind, parent=None, is_async=False):
        self.kind = kind            # module | function | class | lambda
        self.parent = parent
        self.is_async = is_async
        self.locals = []
        self.loop = 0
        self.in_finally = 0
        self.has_yield = False
        self.depth = (parent.depth + 1) if parent else 0

    def func(self):
        s = self
        while s is not None and s.kind == "class":
            s = s.parent
        return s

    def enclosing_locals(self):
        out = []
        s = self.parent
        while s is not None:
            if s.kind in ("function", "lambda"):
                out.extend(s.locals)
            s = s.parent
        return out


class Gen(object):
    def __init__(self, draw, size, exec_safe=False, weights=None):
        self.draw = draw
        self.minver = 7
        self.budget = size
        self.exec_safe = exec_safe
        self.labels = set()
        self.w = weights or {}

    # -- primitive draws ------------------------------------------------------
    def n(self, lo, hi):
        return self.draw(st.integers(lo, hi))

    def chance(self, pct):
        return self.draw(st.integers(0, 99)) < pct

    def pick(self, seq):
        return seq[self.draw(st.integers(0, len(seq) - 1))]

    def need(self, minor):
        if minor > self.minver:
            self.minver = minor

    # -- names -------------------------------------------------------------------
    def name(self, sc, store=False):
        pool = list(GLOBALS)
        if sc.kind in ("function", "lambda"):
            pool = sc.locals + ["p", "q", "r"] + sc.enclosing_locals()[:3] + GLOBALS[:3]
        nm = self.pick(pool)
        if store and sc.kind in ("function",) and nm not in sc.locals:
            sc.locals.append(nm)
        return nm

    # -- constants ---------------------------------------------------------------
    def const(self):
        for _ in range(3):
            spec = self.draw(gen_const.const_specs(max_leaves=4))
            if spec[0] == "fset":
                continue
            lit = gen_const.literal(spec)
            if lit is not None:
                if "\\ud" in lit or "\\uD" in lit:
                    self.labels.add("surrogate_const")
                return lit
        return "0"

    def small_const(self):
        return self.pick(["0", "1", "2", "None", "True", "''", "'s'", "1.5", "b'b'", "-1", "(1, 2)", "..."])

    # -- expressions ---------------------------------------------------------------
    def nl(self):
        """line break inside brackets (layout stress)"""
        if self.chance(15):
            if self.chance(12):
                k = self.pick(BLANK_RUNS)
                self.labels.add("blank_run_in_expr")
                return "\n" * k
            return "\n"
        return ""

    def expr(self, sc, d=0):
        if d >= 3 or self.budget <= 0:
            return self.atom(sc)
        self.budget -= 0.2
        k = self.n(0, 23)
        e = self.expr
        if k <= 3:
            return self.atom(sc)
        if k == 4:
            return "%s %s %s" % (e(sc, d + 1), self.pick(SAFE_BINOPS if self.exec_safe else BINOPS), e(sc, d + 1))
        if k == 5:
            return "%s%s" % (self.pick(["-", "not ", "~", "+"]), e(sc, d + 1))
        if k == 6:
            op = self.pick([" and ", " or "])
            return "(" + op.join(e(sc, d + 1) for _ in range(self.n(2, 3))) + ")"
        if k == 7:
            parts = [e(sc, d + 1)]
            for _ in range(self.n(1, 3)):
                parts.append(self.pick(CMPOPS))
                parts.append(e(sc, d + 1))
            return "(" + " ".join(parts) + ")"
        if k == 8:
            return "(%s if %s else %s)" % (e(sc, d + 1), e(sc, d + 1), e(sc, d + 1))
        if k == 9:
            return self.call(sc, d)
        if k == 10:
            return "%s.%s" % (self.atom(sc), self.pick(["attr", "b", "real"]))
        if k == 11:
            s = self.n(0, 3)
            inner = [e(sc, d + 1), "%s:%s" % (e(sc, d + 1), e(sc, d + 1)), "::%s" % e(sc, d + 1), "%s, %s" % (e(sc, d + 1), e(sc, d + 1))][s]
            return "%s[%s]" % (self.atom(sc), inner)
        if k == 12:
            # exec-safe programs must not depend on object addresses: no set displays (iteration
            # order of a set holding functions/objects depends on address-based hashes)
            o, c = self.pick([("(", ")"), ("[", "]")] if self.exec_safe else [("(", ")"), ("[", "]"), ("{", "}")])
            items = [e(sc, d + 1) for _ in range(self.n(1, 4))]
            if self.chance(20):
                items[self.n(0, len(items) - 1)] = "*" + self.atom(sc)
            body = ("," + (self.nl() or " ")).join(items)
            if o == "(":
                body += ","
            return o + self.nl() + body + self.nl() + c
        if k == 13:
            items = ["%s: %s" % (e(sc, d + 1), e(sc, d + 1)) for _ in range(self.n(0, 3))]
            if self.chance(20):
                items.append("**" + self.atom(sc))
            return "{" + ", ".join(items) + "}"
        if k == 14:
            return self.comprehension(sc, d)
        if k == 15:
            return self.lambda_(sc, d)
        if k == 16:
            return self.fstring(sc, d)
        if k == 17 and sc.kind == "function" and sc.is_async and not self.exec_safe:
            return "(await %s)" % e(sc, d + 1)
        if k == 18 and sc.kind == "function" and not self.exec_safe:
            sc.has_yield = True
            if sc.is_async or self.chance(70):
                return "(yield %s)" % e(sc, d + 1)
            return "(yield from %s)" % e(sc, d + 1)
        if k == 19:
            self.need(8)
            nm = self.name(sc, store=True) if sc.kind != "class" else "w"
            return "(%s := %s)" % (nm, e(sc, d + 1))
        if k == 20:
            # x in {consts} -> frozenset constant; x in [consts] -> tuple constant
            o, c = self.pick([("{", "}"), ("[", "]")])
            items = [self.const() for _ in range(self.n(1, 4))]
            self.labels.add("const_container")
            return "(%s %s %s%s%s)" % (self.atom(sc), self.pick(["in", "not in"]), o, ", ".join(items), c)
        if k == 21:
            return "%s %s %s" % (self.const(), self.pick(["+", "-", "%"] if self.exec_safe else ["+", "*", "-", "<<", "%"]), self.const())  # foldable (or not)
        if k == 22:
            # operand on an earlier line than the operator (negative line delta)
            self.labels.add("multiline_expr")
            return "(%s(\n%s)\n+ %s)" % (self.atom(sc), e(sc, d + 1), e(sc, d + 1))
        return self.const()

    def atom(self, sc):
        k = self.n(0, 5)
        if k <= 2:
            return self.name(sc)
        if k == 3:
            return self.small_const()
        if k == 4:
            return self.const()
        return self.name(sc)

    def call(self, sc, d):
        args = []
        for _ in range(self.n(0, 3)):
            args.append(self.expr(sc, d + 1))
        if self.chance(15):
            args.append("*" + self.atom(sc))
        for i in range(self.n(0, 2)):
            args.append("k%d=%s" % (i, self.expr(sc, d + 1)))
        if self.chance(15):
            args.append("**" + self.atom(sc))
        fn = self.pick(["f", "g", self.name(sc), self.name(sc) + ".m"])
        sep = "," + (self.nl() or " ")
        return "%s(%s%s%s)" % (fn, self.nl(), sep.join(args), self.nl() if args else "")

    def comp_clauses(self, sc, d, allow_async):
        out = []
        for i in range(self.n(1, 2)):
            is_async = allow_async and self.chance(15)
            tgt = self.pick(["i", "j", "(i, j)", "i, *j"])
            out.append("%sfor %s in %s" % ("async " if is_async else "", tgt, self.expr(sc, d + 1) if i == 0 else self.pick(["i", "x", "range(2)"])))
            for _ in range(self.n(0, 2)):
                out.append("if %s" % self.pick(["i", self.expr(sc, d + 2)]))
        return " ".join(out)

    def comprehension(self, sc, d):
        k = self.n(0, 3)
        if self.exec_safe and k == 1:
            k = 0  # no set comprehensions in exec-safe programs (see expr k == 12)
        allow_async = sc.kind == "function" and sc.is_async and not self.exec_safe
        elt = self.pick(["i", "i + 1", "(i, x)", self.expr(sc, d + 2)])
        cl = self.comp_clauses(sc, d, allow_async)
        if k == 0:
            return "[%s %s]" % (elt, cl)
        if k == 1:
            return "{%s %s}" % (elt, cl)
        if k == 2:
            return "{%s: %s %s}" % (elt, self.pick(["i", "0", "'v'"]), cl)
        return "(%s %s)" % (elt, cl)

    def lambda_(self, sc, d):
        inner = Scope("lambda", sc)
        sig = self.signature(inner, annotations=False)
        body = self.expr(inner, d + 1)
        return "(lambda %s: %s)" % (sig, body) if sig else "(lambda: %s)" % body

    def fstring(self, sc, d):
        parts = []
        for _ in range(self.n(1, 3)):
            k = self.n(0, 5)
            if k == 0:
                parts.append(self.pick(["text", " ", "{{", "}}", "a=b"]))
            else:
                e = self.pick([self.name(sc), "x+1", "f(x)", "x.y", "(1, 2)"])
                conv = self.pick(["", "", "!r", "!s", "!a"])
                spec = self.pick(["", "", ":>10", ":{x}", ":.2f"])
                eq = ""
                if k == 5:
                    self.need(8)
                    eq = "="
                parts.append("{%s%s%s%s}" % (e, eq, conv, spec))
        return "f'" + "".join(parts) + "'"

    # -- signatures --------------------------------------------------------------
    def signature(self, sc, annotations=True):
        names = ["a", "b", "c", "d", "e", "k", "m", "n", "o"]
        idx = [0]

        def fresh():
            nm = names[idx[0]]
            idx[0] += 1
            return nm

        def param(nm, default_ok):
            s = nm
            if annotations and self.chance(15):
                s += ": " + self.pick(["int", "'str'", "x"])
                if default_ok[0] and self.chance(50):
                    s += " = " + self.small_const()
                    return s, True
                return s, False
            if default_ok[0]:
                return s + "=" + self.small_const(), True
            return s, False

        parts = []
        npos = self.n(0, 2) if self.chance(25) else 0
        nreg = self.n(0, 3)
        has_default = [False]
        if npos:
            self.need(8)
            for _ in range(npos):
                nm = fresh()
                sc.locals.append(nm)
                if not has_default[0] and self.chance(20):
                    has_default[0] = True
                s, _ = param(nm, has_default)
                parts.append(s)
            parts.append("/")
        for _ in range(nreg):
            nm = fresh()
            sc.locals.append(nm)
            if not has_default[0] and self.chance(25):
                has_default[0] = True
            s, _ = param(nm, has_default)
            parts.append(s)
        star = self.n(0, 3)  # 0 none, 1 *args, 2 bare *, 3 *args
        nkw = self.n(0, 2) if (star or self.chance(20)) else 0
        kwparts = []
        for _ in range(nkw):
            nm = fresh()
            kwparts.append(nm)
        if star in (1, 3):
            sc_args = "args"
            parts.append("*" + sc_args)
        elif nkw:
            parts.append("*")
        # CPython's varnames order: positional, kw-only, *args, **kwargs
        for nm in kwparts:
            sc.locals.append(nm)
            parts.append(nm + ("=" + self.small_const() if self.chance(50) else ""))
        if star in (1, 3):
            sc.locals.append("args")
        if self.chance(25):
            parts.append("**kw")
            sc.locals.append("kw")
        return ", ".join(parts)

    # -- statements ---------------------------------------------------------------
    def blank(self, out):
        if self.chance(6):
            k = self.pick(BLANK_RUNS)
            self.labels.add("blank_run")
            out.extend([""] * k)

    def block(self, sc, d, min_stmts=1, max_stmts=4):
        out = []
        n = self.n(min_stmts, max_stmts)
        for _ in range(n):
            self.blank(out)
            out.extend(self.stmt(sc, d))
            if self.budget <= 0:
                break
        if not out or all(not l.strip() for l in out):
            out.append("pass")
        return out

    @staticmethod
    def ind(lines):
        return [("    " + l) if l.strip() else l for l in _split(lines)]

    def target(self, sc):
        k = self.n(0, 6)
        if k <= 2:
            return self.name(sc, store=True)
        if k == 3:
            return "%s, %s" % (self.name(sc, store=True), self.name(sc, store=True))
        if k == 4:
            return "%s.attr" % self.name(sc)
        if k == 5:
            return "%s[%s]" % (self.name(sc), self.pick(["0", "x", "1:2"]))
        return "%s, *%s" % (self.name(sc, store=True), self.name(sc, store=True))

    def stmt(self, sc, d):
        self.budget -= 1
        if d >= 4 or self.budget <= 0:
            k = self.n(0, 3)
        else:
            k = self.n(0, 31)
        e = lambda: self.expr(sc)  # noqa: E731
        if k == 0:
            return ["%s = %s" % (self.target(sc), e())]
        if k == 1:
            return [e()]
        if k == 2:
            return ["%s %s= %s" % (self.name(sc, store=True), self.pick(BINOPS), e())]
        if k == 3:
            return [self.pick(["pass", "x = 1", "del x", "x: int = 1", "x: int", "assert x", "assert x, 'msg'"])]
        if k == 4:
            return self.if_(sc, d)
        if k == 5:
            return self.while_(sc, d)
        if k == 6:
            return self.for_(sc, d)
        if k == 7:
            return self.try_(sc, d)
        if k == 8:
            return self.with_(sc, d)
        if k in (9, 10):
            return self.funcdef(sc, d)
        if k == 11:
            return self.classdef(sc, d)
        if k == 12 and sc.loop and not sc.in_finally:
            return [self.pick(["break", "continue"])]
        if k == 13 and sc.kind == "function":
            if sc.is_async and sc.has_yield:
                return ["return"]
            return [self.pick(["return", "return " + e(), "return %s, %s" % (e(), e())])]
        if k == 14:
            return [self.pick(["raise", "raise E", "raise E(x)", "raise E from y", "raise E from None"])]
        if k == 15 and not self.exec_safe:
            return [self.pick(["import m", "import m.n as o", "from m import n", "from m import n as o, p", "from . import q",
                               "from .r import s"])] if sc.kind != "function" else ["import m"]
        if k == 16:
            return self.pad(sc)
        if k == 17:
            return self.fill(sc)
        if k == 18:
            return self.dead(sc, d)
        if k == 19 and sc.kind == "function" and not self.exec_safe:
            sc.has_yield = True
            return ["yield " + e()] if (sc.is_async or self.chance(70)) else ["yield from " + e()]
        if k == 20 and sc.kind == "function" and sc.is_async and not self.exec_safe:
            return self.async_stmt(sc, d)
        if k == 21 and sc.kind == "function" and sc.is_async:
            return ["await " + e()]
        if k == 22:
            return self.match_(sc, d)
        if k == 23:
            # multi-line statement whose operands sit on other lines
            self.labels.add("multiline_stmt")
            gap = "\n" * (self.pick(BLANK_RUNS) if self.chance(20) else 1)
            return ["%s = f(%s%s,%s%s)" % (self.name(sc, store=True), gap, e(), gap, e())]
        if k == 24:
            return ["%s = %s = %s" % (self.name(sc, store=True), self.name(sc, store=True), e())]
        if k == 25:
            return ["x = %s; y = %s" % (e(), self.atom(sc))]
        if k == 26:
            return ["if %s: %s" % (e(), self.pick(["pass", "x = 1", "f()"]))]
        if k == 27:
            return ["print(%s)" % e()]
        if k == 28:
            return ["%s = %s" % (self.name(sc, store=True), self.const())]
        if k == 29:
            return ["x \\", "  = %s" % e()]
        return ["%s = %s" % (self.target(sc), e())]

    def pad(self, sc):
        n = self.pick(PAD_SIZES)
        self.labels.add("pad")
        self.budget -= n / 40.0
        stmt = self.pick(["x=1", "x=y", "f()"])
        if self.chance(30):
            return [stmt] * n  # one per line
        return [";".join([stmt] * n)]

    def fill(self, sc):
        n = self.pick(FILL_SIZES)
        base = self.n(0, 3) * 300
        self.labels.add("fill")
        self.budget -= n / 60.0
        kind = self.n(0, 3)
        if kind == 0:
            body = ["n%d=0" % (base + i) for i in range(n)]       # names
        elif kind == 1:
            body = ["x=%d" % (1000 + base + i) for i in range(n)]  # constants
        elif kind == 2:
            body = ["x.a%d" % (base + i) for i in range(n)]       # attribute names
        else:
            body = ["n%d=%d" % (base + i, 1000 + base + i) for i in range(n)]
        if self.chance(50):
            return [";".join(body)]
        return body

    def dead(self, sc, d):
        self.labels.add("dead_code")
        k = self.n(0, 5)
        body = self.block(sc, d + 1, 1, 2)
        if k == 0:
            return ["if 0:"] + self.ind(body)
        if k == 1:
            return ["while 0:"] + self.ind(body)
        if k == 2:
            return ["if __debug__:"] + self.ind(body) + (["else:"] + self.ind(self.block(sc, d + 1, 1, 1)) if self.chance(50) else [])
        if k == 3 and sc.kind == "function":
            return ["return"] + body
        if k == 4:
            return ["if 1:"] + self.ind(body) + ["else:"] + self.ind(self.block(sc, d + 1, 1, 1))
        return ["if not __debug__:"] + self.ind(body)

    def if_(self, sc, d):
        out = ["if %s:" % self.expr(sc)] + self.ind(self.block(sc, d + 1))
        for _ in range(self.n(0, 2)):
            out += ["elif %s:" % self.expr(sc)] + self.ind(self.block(sc, d + 1, 1, 2))
        if self.chance(40):
            out += ["else:"] + self.ind(self.block(sc, d + 1, 1, 2))
        return out

    def while_(self, sc, d):
        sc.loop += 1
        cond = self.pick(["x", "1", "True", self.expr(sc), "not x < y < z"])
        if self.exec_safe:
            # terminating by construction: counter-guarded
            self.wcount = getattr(self, "wcount", 0) + 1
            cn = "_w%d" % self.wcount
            body = self.block(sc, d + 1)
            sc.loop -= 1
            return ["%s = 3" % cn, "while %s:" % cn] + self.ind(["%s -= 1" % cn] + body)
        out = ["while %s:" % cond] + self.ind(self.block(sc, d + 1))
        sc.loop -= 1
        if self.chance(25):
            out += ["else:"] + self.ind(self.block(sc, d + 1, 1, 2))
        return out

    def for_(self, sc, d):
        sc.loop += 1
        out = ["for %s in %s:" % (self.target(sc), self.expr(sc))] + self.ind(self.block(sc, d + 1))
        sc.loop -= 1
        if self.chance(25):
            out += ["else:"] + self.ind(self.block(sc, d + 1, 1, 2))
        return out

    def try_(self, sc, d):
        out = ["try:"] + self.ind(self.block(sc, d + 1))
        nexc = self.n(0, 2)
        fin = self.chance(40) or nexc == 0
        for i in range(nexc):
            h = self.pick(["except:", "except E:", "except (E, F) as e:", "except E as e:"])
            if h == "except:" and i < nexc - 1:
                h = "except E:"
            out += [h] + self.ind(self.block(sc, d + 1, 1, 2))
        if nexc and self.chance(30):
            out += ["else:"] + self.ind(self.block(sc, d + 1, 1, 2))
        if fin:
            sc.in_finally += 1
            saved = sc.loop
            body = self.block(sc, d + 1, 1, 2)
            sc.in_finally -= 1
            sc.loop = saved
            out += ["finally:"] + self.ind(body)
        return out

    def with_(self, sc, d):
        items = []
        for _ in range(self.n(1, 2)):
            items.append(self.expr(sc, 2) + (" as " + self.target(sc) if self.chance(50) else ""))
        return ["with %s:" % ", ".join(items)] + self.ind(self.block(sc, d + 1))

    def async_stmt(self, sc, d):
        if self.chance(50):
            sc.loop += 1
            out = ["async for %s in %s:" % (self.name(sc, store=True), self.expr(sc))] + self.ind(self.block(sc, d + 1, 1, 2))
            sc.loop -= 1
            return out
        return ["async with %s as %s:" % (self.expr(sc, 2), self.name(sc, store=True))] + self.ind(self.block(sc, d + 1, 1, 2))

    def match_(self, sc, d):
        self.need(10)
        self.labels.add("match")
        out = ["match %s:" % self.expr(sc, 2)]
        for _ in range(self.n(1, 3)):
            pat = self.pick(["0", "'s'", "[a, b]", "{'k': v}", "E(x=1)", "a | None" if False else "1 | 2", "[1, *rest]", "(a, b) if a" , "_"])
            out += self.ind(["case %s:" % pat] + self.ind(self.block(sc, d + 1, 1, 2)))
        return out

    def docstring(self):
        k = self.n(0, 9)
        if k <= 3:
            return None
        self.labels.add("docstring")
        return self.pick(["'doc'", "''", '"""multi\nline"""', "'\\ud800'", "b'bytes'", "f'fs'", "'a' 'b'", "'x'"])

    def funcdef(self, sc, d):
        is_async = self.chance(20) and not self.exec_safe
        inner = Scope("function", sc, is_async=is_async)
        sig = self.signature(inner)
        out = []
        for _ in range(self.n(0, 2) if self.chance(15) else 0):
            out.append("@" + self.pick(["f", "g(1)", "x.y"]))
        name = self.pick(["f", "g", "h", "fn"])
        ret = " -> " + self.pick(["int", "'T'", "x"]) if self.chance(10) else ""
        head = "%sdef %s(%s)%s:" % ("async " if is_async else "", name, sig, ret)
        body = []
        doc = self.docstring()
        decl = []
        if self.chance(12):
            decl.append("global " + self.pick(["gg", "gg, hh"]))
        encl = [n_ for n_ in sc.func().locals if n_ not in inner.locals] if (sc.func() and sc.func().kind == "function") else []
        if encl and self.chance(20):
            decl.append("nonlocal " + encl[0])
            self.labels.add("nonlocal")
        if doc and self.chance(85):
            body.append(doc)
            body.extend(decl)
        else:
            body.extend(decl)
            if doc:
                body.append("x = 0")
                body.append(doc)
        body.extend(self.block(inner, d + 1, 1, 4))
        if self.chance(15):
            # unused closure variable: inner function after return
            self.labels.add("unused_closure")
            body += ["return", "def i():", "    " + self.pick(["i()", inner.locals[0] if inner.locals else "i()"])]
        out.append(head)
        out += self.ind(body)
        if self.exec_safe and not is_async:
            # call it, so that the nested code object actually runs
            call = "%s(%s)" % (name, ", ".join(["1"] * self.n(0, 3)))
            out += ["try:", "    print(%s)" % call, "except Exception as _e:", "    print(type(_e).__name__)"]
        return out

    def classdef(self, sc, d):
        inner = Scope("class", sc)
        bases = self.pick(["", "", "(B)", "(B, metaclass=M)", "()"])
        out = []
        if self.chance(10):
            out.append("@" + self.pick(["f", "g(1)"]))
        out.append("class %s%s:" % (self.pick(["A", "B", "C"]), bases))
        body = []
        doc = self.docstring()
        if doc:
            body.append(doc)
        if self.chance(30):
            body += ["def m(self):", "    " + self.pick(["return super().m()", "return __class__", "super().__init__()"])]
            self.labels.add("class_cell")
        body.extend(self.block(inner, d + 1, 1, 3))
        out += self.ind(body)
        return out

    # -- whole module --------------------------------------------------------------
    def module(self):
        sc = Scope("module")
        out = []
        doc = self.docstring()
        if doc:
            out.append(doc)
        if self.chance(8) and not self.exec_safe:
            nm = self.pick(FUTURES)
            if nm == "annotations":
                pass
            out.append("from __future__ import " + nm)
            self.labels.add("future_" + nm)
        out.extend(self.block(sc, 0, 1, 6))
        return out


def _split(lines):
    out = []
    for l in lines:
        out.append(l)
    return out


def _join(lines):
    return "\n".join(lines) + "\n"


FILENAMES = ["<verif>", "m.py", "dir/m\u00e9.py", "\udcffx.py", "", "a b.py", "<string>"]


@st.composite
def grammar_programs(draw, max_size=30, modes=("exec",), exec_safe=False):
    size = draw(st.integers(3 if exec_safe else 1, max_size))
    g = Gen(draw, size, exec_safe=exec_safe)
    mode = "exec"
    if len(modes) > 1:
        mode = modes[draw(st.integers(0, len(modes) - 1))] if draw(st.integers(0, 9)) < 3 else "exec"
    if mode == "eval":
        src = g.expr(Scope("module"))
        src = src.replace(":=", "==") if False else src
        lines = ["(" + src + ")"]
    elif mode == "single":
        lines = g.stmt(Scope("module"), 1)
    else:
        lines = g.module()
    optimize = draw(st.integers(0, 9))
    optimize = {7: 1, 8: 2, 9: 2}.get(optimize, 0)
    fn = FILENAMES[draw(st.integers(0, len(FILENAMES) - 1))] if draw(st.integers(0, 9)) < 2 else "<verif>"
    case = {"src": _join(lines), "mode": mode, "optimize": optimize, "min_version": g.minver, "_label": "grammar"}
    if fn != "<verif>":
        case["filename"] = fn
    return case


def hypothesmith_programs():
    import hypothesmith
    node = hypothesmith.from_node().map(lambda s: {"src": s, "mode": "exec", "optimize": 0, "min_version": 7, "_label": "hypothesmith_node"})
    gram = hypothesmith.from_grammar().map(lambda s: {"src": s, "mode": "exec", "optimize": 0, "min_version": 7, "_label": "hypothesmith_grammar"})
    return st.one_of(node, gram)


def corpus_programs(whole_file_pct=20):
    return st.builds(
        lambda idx, whole, a, n, opt: dict(
            {"corpus": idx, "optimize": {7: 1, 8: 2, 9: 2}.get(opt, 0), "min_version": 7, "_label": "corpus"},
            **({} if whole < whole_file_pct else {"window": [a, n]})),
        st.integers(0, 4000), st.integers(0, 99), st.integers(0, 3000), st.integers(0, 11), st.integers(0, 9))


def programs(max_size=30, modes=("exec", "eval", "single"), mix=(78, 7, 15)):
    """mix = weights of (grammar, hypothesmith, corpus)"""
    g, h, c = mix
    total = g + h + c
    gp = grammar_programs(max_size=max_size, modes=modes)
    hp = hypothesmith_programs() if h else None
    cp = corpus_programs()

    @st.composite
    def pick(draw):
        k = draw(st.integers(0, total - 1))
        if k < g:
            return draw(gp)
        if k < g + h:
            return draw(hp)
        return draw(cp)
    return pick()


# -- deterministic seed corpus: the repository's own examples -------------------
NEWLINE = "\n"
REPO_EXAMPLES = [
    "\n", "a", "def fn(): pass", "class A: pass", "class A: pass\nclass A: pass\n",
    "x = 1" + NEWLINE * 127 + "\ny=2",
    "x = x or " + "-x" * 100 + "\nwhile x:\n    x -= 1",
    "while not x < y < z:\n    pass",
    "y =" + ("-x" * 100) + ("\n" * 300) + "z = y",
    "f(\n1)", "f(" + "\n" * 256 + "1)",
    "def _():\n    return\n    return\n",
    "_ = 0j",
    "\ndef fn():\n    return\n    def i():\n        i()\n",
]

def _dup_and_wide_sources():
    """equal-key duplicates in a constant table (two folded NaNs; on <=3.9 also two folded default tuples) TOGETHER
    with an entry whose index is beyond the small-int cache (>= 257) and that is used more than once: both in module
    code and in a function with a docstring"""
    body = ["a = 1e999-1e999", "b = 1e999-1e999"] + ["v%d = %d" % (i, 1000 + i) for i in range(262)] + ["w = 1259", "u = 1261", "t = 1261"]
    mod = "\n".join(body) + "\n"
    fn = "def f(p=(1, 2), q=(1, 2)):\n    'doc'\n" + "".join("    %s\n" % l for l in body) + "    return w\ny = (1, 2)\n"
    return [mod, fn]


EXTRA_EXAMPLES = _dup_and_wide_sources() + [
    # shapes named in DESIGN section 7.4 / section 8 (rare feature classes)
    "def f():\n return\n def g(): pass\n",
    "if 0:\n def g(): pass\n",
    "from __future__ import annotations\ndef f(a: int) -> str: pass\n",
    "from __future__ import barry_as_FLUFL\n",
    "def f(a, b=1, *args, c, d=2, **kw):\n 'doc'\n return a\n",
    "async def f():\n async for i in x: yield i\n async with y as z: await z\n",
    "def f(x):\n def g():\n  nonlocal x\n  x = 1\n  return x\n return g\n",
    "class A:\n def m(self): return super().m()\n",
    "x = [i for i in y if i]\ny = {i: j for i in a for j in b}\n",
    "x = 1e999-1e999\ny = -0.0\nz = (0.0, -0.0, 1, True, 1.0)\n",
    "x = 'a' in {'a', b'a', 1, 1.0}\n",
    "try:\n x\nexcept E as e:\n y\nelse:\n z\nfinally:\n w\n",
    "def f():\n '\\ud800'\n",
    "def f():\n x = 'not a docstring'\n return x\n",
    "def f():\n return 'first const is str'\n",
    "lambda: 'doc?'\n",
    "while 1:\n if x: break\n else: continue\n",
    "for i in x:\n with a as b, c as d:\n  pass\nelse:\n pass\n",
    "x = 1;" * 70 + "\n",
    "if x:\n " + "x=1;" * 70 + "\ny = 2\n",
    "if x:\n " + "x=1;" * 130 + "\ny = 2\n",
    "while x:\n " + "x=1;" * 130 + "\n",
    ";".join("n%d=0" % i for i in range(260)) + "\n",
    ";".join("x=%d" % (1000 + i) for i in range(260)) + "\nprint(x)\n",
    "def f():\n " + ";".join("n%d=0" % i for i in range(260)) + "\n return n259\n",
    "x = (1,\n\n\n 2, y)\n",
    "x = f(a,\n" + "\n" * 130 + "b)\n",
    "f(" + "\n" * 127 + "1)", "f(" + "\n" * 128 + "1)", "f(" + "\n" * 129 + "1)",
    "x = 1" + "\n" * 128 + "y = 2", "x = 1" + "\n" * 254 + "y = 2", "x = 1" + "\n" * 255 + "y=2", "x = 1" + "\n" * 256 + "y=2",
    "x = 1" + "\n" * 381 + "y=2", "x = 1" + "\n" * 382 + "y=2",
    # two separately folded NaNs / two equal nested code objects that each own a NaN (duplicate table entries)
    "x = 1e999-1e999\ny = 1e999-1e999\nz = x\n",
    "g = [lambda: 1e999 - 1e999, lambda: 1e999 - 1e999]\n",
    "def f():\n    \"\"\"multi\n    \nline\"\"\"\n    return 'a\u2028b\x85c'\n",
    "def first(target, *opts): return opts\ndef second(target, **opts): return opts\n",
    "def so(*a, **k): pass\nlam = lambda *a: a\n",
    # identical nested code objects in different parents ("cousins"), on one line
    "class A:\n    f = (lambda s: [i for i in s]); g = (lambda t, u: [i for i in t])\n",
    "x = y in {1e999 - 1e999, 1e999 * 0, 1.5}\n",
    # a constant loaded again after an equal-keyed but distinct one was loaded in between (A, A', A)
    "t = (1, 2)\ndef f(a=1, b=2): pass\nu = (1, 2)\n",
    "try:\n    x\nfinally:\n    a = 1e999 * 0\n    b = 1e999 * 0\n    c = a\n",
    # one line compiling to exactly 510 bytes (2 x 255) before the next line (<=3.9)
    "f();" * 85 + "\ny = 1\n", "x = 1\n" + "f();" * 170 + "\ny = 1\n",
    # nested code objects that differ only in a constant with a colliding hash (hash(-1) == hash(-2))
    "g = [lambda: -1, lambda: -2]\nh = [lambda: (1, -1), lambda: (1, -2)]\n",
    # an unreferenced cell variable (its only capture was compiled away) next to a free-variable access
    "def outer(y):\n    def inner(x):\n        if 0:\n            g = lambda: x\n        return y\n    return inner\n",
    "def outer(y):\n    def inner(x):\n        assert (lambda: x)\n        return y, x\n    return inner\n",
    # dead code kept in the table on the same line as the last live statement
    "def f(a):\n    a = 1\n    return a; a = 2\n",
    # a cell variable whose name is also a free variable (__class__ in a class nested in a method)
    "class A:\n    def f(self):\n        class X:\n            def g(self):\n                return __class__\n            x = __class__\n        return X\n",
    # <=3.9 peephole tuple folding with a constant index >= 256: line entry inside an instruction
    ";".join("x=%d" % (1000 + i) for i in range(260)) + "\ndef f(a=1,\n b=2): pass\n",
    ";".join("x=%d" % (1000 + i) for i in range(260)) + "\ndef f(a=1,\n b=2,\n c=3): pass\ny = (a,\n b)\n",
]


def jump_cascade_sources():
    """a family of loops in which the length of an `if` body is swept, so that for some member the
    target of the `if`'s jump sits just below the one-byte operand limit while the loop's own
    FOR_ITER is one unit long and just above it once FOR_ITER got the EXTENDED_ARG it needs: the
    encoder's jump-width fix point then needs a third pass (widening one jump pushes another over
    the boundary).  Boundary: byte offset 254/256 on <=3.9, instruction index 255/256 on 3.10."""
    out = []
    for n in list(range(44, 68)) + list(range(112, 130)):
        for odd in (False, True):
            lines = ["out = []", "for x in (0, 1, 2):", "    if x:"]
            lines += ["        out"] * n
            if odd:
                lines += ["        out.copy"]
            lines += ["        out.append(x)"]
            lines += ["    out"] * 140
            lines += ["    out.append(-x)", "out.append('end')"]
            out.append("\n".join(lines) + "\n")
    return out + deep_cascade_sources()


def deep_cascade_sources():
    """L nested `if c and c and c:` whose false-targets sit three instructions apart just below the
    one-byte operand limit: widening the innermost level's jumps pushes the next level's target over
    the limit, and so on outwards, so the encoder's jump-width fix point needs about L+1 passes
    (after normalize(), when no jump carries a width override).  The pad length is swept around the
    boundary for <=3.9 (byte offsets) and for 3.10 (instruction indices)."""
    out = []
    ind = "    "
    for levels, c39, c310 in ((5, 40, 104), (6, 36, 100), (7, 31, 95), (8, 27, 91), (9, 22, 86), (12, 9, 73)):
        for center in (c39, c310):
            for pad in range(max(1, center - 3), center + 4):
                for extra in (0, 1):
                    lines = ["out = []", "def f(c, x, out):"]
                    for i in range(levels):
                        lines.append(ind * (i + 1) + "if c and c and c:")
                    body = ind * (levels + 1)
                    lines += [body + "x"] * pad
                    if extra:
                        lines.append(body + "-x")
                    lines.append(body + "out.append(0)")
                    for i in range(levels - 1, 0, -1):
                        lines.append(ind * (i + 1) + "-x")
                    lines += [ind + "out.append(-1)", ind + "return out", "f(1, 2, out)", "f(0, 2, out)"]
                    out.append("\n".join(lines) + "\n")
    return out


def many_cells_sources():
    """a function with n cell variables and one free variable read on one arm of an `if`: with
    n >= 256 the free-variable operand (cells come first) needs an EXTENDED_ARG"""
    out = []
    for n in (254, 255, 256, 257, 300):
        names = ["c%d" % i for i in range(n)]
        lines = ["def outer(fv):", "    def f(flag):"]
        lines += ["        " + " = ".join(names) + " = 0"]
        lines += ["        def inner():", "            return (" + ", ".join(names) + ")"]
        lines += ["        if flag:", "            y = fv", "        else:", "            y = 0", "        return y, inner"]
        lines += ["    return f", "print(outer(7)(1)[0], outer(7)(0)[0])"]
        out.append("\n".join(lines) + "\n")
    return out


def except_list_sweep():
    """`except E as e:` bodies swept so that one member is an exact multiple of 254 bytes on one line,
    directly followed by the compiler's line-less clean-up (3.10)"""
    out = []
    for n in list(range(120, 127)) + list(range(249, 256)):
        out.append("try:\n    x\nexcept E as e:\n    [" + "a, " * n + "]\nc\n")
        out.append("try:\n    a\nexcept E as e:\n    x = [" + ", ".join(["a"] * n) + "]\nc\nd\n")
    return out


def zero_width_after_boundary_sources():
    """an assignment whose target is a conditional expression with a constant-true test (folded away by the
    peephole pass on <=3.9, which leaves zero-width line entries behind) and whose value sits `gap` lines further
    down: the line table then holds a backward step of exactly -gap directly followed by a zero-width negative
    entry; gap is swept across the one-byte line-delta boundaries"""
    out = []
    for gap in (125, 126, 127, 128, 129, 130, 253, 254, 255, 256, 257):
        for outer_gap in (1, 2, 3):
            out.append("y = 0\n(k\n" + "\n" * (outer_gap - 1) + " if f'a'\n else k2).attr = (\n" + "\n" * (gap - 2) + " v)\nw = 1\n")
    return out


def example_cases():
    out = []
    for src in REPO_EXAMPLES + EXTRA_EXAMPLES:
        for opt in (0, 2):
            out.append({"src": src, "mode": "exec", "optimize": opt, "min_version": 7, "_label": "examples"})
    for src in many_cells_sources() + except_list_sweep() + zero_width_after_boundary_sources():
        out.append({"src": src, "mode": "exec", "optimize": 0, "min_version": 7, "_label": "examples"})
    for i in range(39):  # _test_minimized/*.py are the first corpus entries
        out.append({"corpus": i, "optimize": 0, "min_version": 7, "_label": "repo_minimized"})
    return out


HUGE_EXAMPLES = [
    # >65k-entry tables / >65k-unit jumps, expanded by the worker (#@FILL macros)
    "#@FILL names 0 65540\n",
    "#@FILL consts 0 65540\n",
    "if x:\n #@FILL pad 0 16390\ny = 1\n",
    "if x:\n #@FILL pad 0 32780\ny = 1\n",
    "while x:\n #@FILL pad 0 32780\n",
    "def f():\n #@FILL names 0 65540\n return n65539\n",
    "x = 1\n#@FILL lines 0 70000\ny = 2\n",
]


def huge_cases():
    return [{"src": s, "mode": "exec", "optimize": 0, "min_version": 7, "_label": "huge"} for s in HUGE_EXAMPLES]
