# M-LNOTAB / M-LINETABLE: models of CPython's line-table assemblers (transcribed from
# Python/compile.c assemble_lnotab (3.7-3.9) / assemble_line_range (3.10) and the
# lnotab fix-up of Python/peephole.c), plus pure-Python reference readers of both
# formats.  Imports nothing from code_data.  Python 3.7 syntax; used by the driver
# (3.12), the workers (3.7-3.10) and the atheris target (3.11).
#
# An abstract line program is a list of instructions (units, line, deleted):
#   units   >= 1 code units
#   line    the line the compiler marks the instruction with, or None
#           (<=3.8: instruction without a line mark; 3.9: same line as before; 3.10: no line)
#   deleted (<=3.9 only) removed by the peephole optimizer after assembly


def s8(x):
    return x & 255


def sg(b):
    return b - 256 if b >= 128 else b


def model_lnotab(prog, first, flavour):
    """-> table bytes for the code with deleted instructions removed, or None when the
    optimizer would have bailed out (then nothing is deleted and the case is void).
    flavour: '37' | '38' | '39'"""
    out = []
    a_lineno = first
    a_lineno_off = 0
    off = 0  # in code units
    for units, line, deleted in prog:
        if line is not None:
            d_line = line - a_lineno
            d_bc = (off - a_lineno_off) * 2
            skip = (d_bc == 0 and d_line == 0) if flavour in ("37", "38") else (d_line == 0)
            if not skip:
                if d_bc > 255:
                    n = d_bc // 255
                    out += [255, 0] * n
                    d_bc -= n * 255
                if d_line < -128 or d_line > 127:
                    if d_line < 0:
                        k = -128
                        n = (-d_line) // 128
                    else:
                        k = 127
                        n = d_line // 127
                    d_line -= n * k
                    out += [d_bc, s8(k)]
                    d_bc = 0
                    for _j in range(1, n):
                        out += [0, s8(k)]
                out += [d_bc, s8(d_line)]
                a_lineno = line
                a_lineno_off = off
        off += units
    if any(d for _u, _l, d in prog):
        if (255 in out) if flavour == "37" else (255 in out[0::2]):
            return None
        newaddr = {}
        o = 0
        n = 0
        for units, line, deleted in prog:
            for u in range(units):
                newaddr[o + u] = n + (0 if deleted else u)
            o += units
            if not deleted:
                n += units
        newaddr[o] = n
        cum = 0
        last = 0
        res = []
        for i in range(0, len(out), 2):
            cum += out[i]
            na = newaddr[cum // 2] * 2
            res += [na - last, out[i + 1]]
            last = na
        out = res
    if any(x < 0 or x > 255 for x in out):
        return None
    return bytes(out)


def model_linetable(prog, first):
    """3.10 assemble_line_range; line None = instruction without a line"""
    out = []
    st = {"a_lineno": first, "a_prev": first, "start": 0}
    off = [0]

    def line_range():
        bd = (off[0] - st["start"]) * 2
        if bd == 0:
            return
        if st["a_lineno"] < 0:
            ld = -128
        else:
            ld = st["a_lineno"] - st["a_prev"]
            st["a_prev"] = st["a_lineno"]
            while ld > 127:
                out.extend([0, 127])
                ld -= 127
            while ld < -127:
                out.extend([0, s8(-127)])
                ld += 127
        while bd > 254:
            out.extend([254, s8(ld)])
            ld = -128 if st["a_lineno"] < 0 else 0
            bd -= 254
        out.extend([bd, s8(ld)])
        st["start"] = off[0]

    for item in prog:
        units, line = item[0], item[1]
        ln = -1 if line is None else line
        if ln != st["a_lineno"]:
            line_range()
            st["a_lineno"] = ln
        off[0] += units
    line_range()
    return bytes(out)


# ---------------------------------------------------------------- reference readers
def read_lnotab(table, ncode_bytes, first):
    """{offset: line} for every code unit; written from Objects/lnotab_notes.txt"""
    entries = []
    addr = 0
    line = first
    for i in range(0, len(table), 2):
        addr += table[i]
        line += sg(table[i + 1])
        entries.append((addr, line))
    res = {}
    cur = first
    j = 0
    for o in range(0, ncode_bytes, 2):
        while j < len(entries) and entries[j][0] <= o:
            cur = entries[j][1]
            j += 1
        res[o] = cur
    return res


def read_linetable(table, first):
    """{offset: line or None}; written from the 3.10 description in lnotab_notes.txt"""
    res = {}
    line = first
    addr = 0
    for i in range(0, len(table), 2):
        sd = table[i]
        ld = sg(table[i + 1])
        if ld == -128:
            cur = None
        else:
            line += ld
            cur = line
        for o in range(addr, addr + sd, 2):
            res[o] = cur
        addr += sd
    return res


def surviving_groups(prog):
    return [u for u, _l, d in prog if not d]


# ---------------------------------------------------------------- real table -> abstract program
def derive_lnotab(table, first, instr):
    """instr = [(start_byte, units)]; returns (prog, leftover_addresses): the abstract
    program whose model output should reproduce `table` (k entries at one address =
    k-1 deleted one-unit instructions)."""
    ents = [(table[i], sg(table[i + 1])) for i in range(0, len(table), 2)]
    events = []
    i = 0
    addr = 0
    while i < len(ents):
        bc, dl = ents[i]
        tot_bc = 0
        while bc == 255 and dl == 0 and i + 1 < len(ents):
            tot_bc += 255
            i += 1
            bc, dl = ents[i]
        tot_bc += bc
        tot_dl = dl
        if dl in (127, -128) and i + 1 < len(ents) and ents[i + 1][0] == 0:
            k = dl
            j = i + 1
            while j < len(ents) and ents[j] == (0, k) and j + 1 < len(ents) and ents[j + 1][0] == 0:
                tot_dl += k
                j += 1
            tot_dl += ents[j][1]
            i = j
        addr += tot_bc
        events.append((addr, tot_dl))
        i += 1
    by_addr = {}
    order = []
    for a, d in events:
        if a not in by_addr:
            by_addr[a] = []
            order.append(a)
        by_addr[a].append(d)
    prog = []
    line = first
    clen = instr[-1][0] + instr[-1][1] * 2 if instr else 0
    for s, n in list(instr) + [(clen, 0)]:
        evs = by_addr.pop(s, [])
        for d in evs[:-1]:
            line += d
            prog.append((1, line, True))
        if evs:
            line += evs[-1]
            if s == clen:
                prog.append((1, line, True))
            else:
                prog.append((n, line, False))
        elif s != clen:
            prog.append((n, None, False))
    return prog, sorted(by_addr)
