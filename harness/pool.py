# Driver side: interpreter discovery, persistent worker processes, RPC with
# time-outs and restart.  Runs under /venv/bin/python (3.12).
import glob
import json
import os
import select
import subprocess
import time

HERE = os.path.dirname(os.path.abspath(__file__))
SHIMS = os.path.join(HERE, "shims")
TARGETS = ("3.7", "3.8", "3.9", "3.10")
CONSUMERS = ("3.11", "3.12")


class HarnessError(Exception):
    pass


class WorkerDied(Exception):
    pass


class WorkerTimeout(Exception):
    pass


def repo_path():
    return os.environ.get("VERIF_REPO", "/repo")


def discover():
    """{'3.7': path, ...} for every interpreter present."""
    found = {}
    for v in TARGETS + CONSUMERS:
        c = sorted(glob.glob("/root/.pyenv/versions/%s.*/bin/python3" % v))
        c = [p for p in c if os.access(p, os.X_OK)]
        if c:
            found[v] = c[-1]
    if "3.12" not in found and os.access("/venv/bin/python", os.X_OK):
        found["3.12"] = "/venv/bin/python"
    return found


class Worker(object):
    def __init__(self, version, exe, extra_env=None):
        self.version = version
        self.exe = exe
        self.extra_env = extra_env or {}
        self.proc = None
        self.buf = b""
        self.nreq = 0
        self.restarts = 0
        self.hello = None
        self.start()

    def start(self):
        env = dict(os.environ)
        env["PYTHONPATH"] = SHIMS + os.pathsep + repo_path()
        env["PYTHONHASHSEED"] = "0"
        env["VERIF_REPO"] = repo_path()
        env["PYTHONDONTWRITEBYTECODE"] = "1"
        env.pop("PYTHONSTARTUP", None)
        env.update(self.extra_env)
        self.proc = subprocess.Popen(
            [self.exe, "-B", "-s", os.path.join(HERE, "worker.py")],
            stdin=subprocess.PIPE, stdout=subprocess.PIPE, stderr=subprocess.DEVNULL,
            env=env, cwd=HERE, close_fds=True,
        )
        self.buf = b""
        self.hello = self._readline(30.0)
        if "lib_error" in self.hello:
            raise HarnessError("worker %s cannot import code_data:\n%s" % (self.version, self.hello["lib_error"]))

    def _readline(self, timeout):
        fd = self.proc.stdout.fileno()
        deadline = time.monotonic() + timeout
        while b"\n" not in self.buf:
            left = deadline - time.monotonic()
            if left <= 0:
                raise WorkerTimeout(self.version)
            r, _, _ = select.select([fd], [], [], left)
            if not r:
                raise WorkerTimeout(self.version)
            chunk = os.read(fd, 1 << 16)
            if not chunk:
                raise WorkerDied(self.version)
            self.buf += chunk
        line, self.buf = self.buf.split(b"\n", 1)
        return json.loads(line.decode("ascii"))

    def send(self, op, args):
        self.nreq += 1
        msg = json.dumps({"id": self.nreq, "op": op, "args": args}, ensure_ascii=True) + "\n"
        try:
            self.proc.stdin.write(msg.encode("ascii"))
            self.proc.stdin.flush()
        except (BrokenPipeError, OSError):
            raise WorkerDied(self.version)
        return self.nreq

    def recv(self, rid, timeout):
        while True:
            out = self._readline(timeout)
            if out.get("id") == rid:
                return out

    def kill(self):
        if self.proc is not None:
            try:
                self.proc.kill()
                self.proc.wait(5)
            except Exception:
                pass
            for f in (self.proc.stdin, self.proc.stdout):
                try:
                    f.close()
                except Exception:
                    pass
            self.proc = None

    def restart(self):
        self.kill()
        self.restarts += 1
        self.start()

    def close(self):
        try:
            if self.proc and self.proc.stdin:
                self.proc.stdin.close()
            if self.proc:
                self.proc.wait(2)
        except Exception:
            pass
        self.kill()


class Pool(object):
    """One worker per interpreter version; calls are pipelined across versions."""

    def __init__(self, versions=TARGETS, budget=60.0):
        found = discover()
        self.paths = found
        self.workers = {}
        self.missing = [v for v in versions if v not in found]
        for v in versions:
            if v in found:
                self.workers[v] = Worker(v, found[v])
        self.started = {v: found[v] for v in self.workers}
        self.budget = budget
        self.stats = {"restarts": 0, "timeouts": 0, "crashes": 0}
        if not any(v in self.workers for v in TARGETS if v in versions) and any(v in TARGETS for v in versions):
            raise HarnessError("no target interpreter available")

    def versions(self):
        return list(self.workers)

    def call(self, op, args, versions=None, budget=None, retry_factor=5):
        """Send to each version, gather.  Returns {version: result-dict}.  A
        result has status ok|reject|violation|inconclusive|crash; harness errors
        inside the worker raise HarnessError."""
        budget = budget or self.budget
        versions = [v for v in (versions or self.workers) if v in self.workers]
        pend = {}
        res = {}
        for v in versions:
            try:
                pend[v] = self.workers[v].send(op, args)
            except WorkerDied:
                res[v] = self._retry(v, op, args, budget * retry_factor, died=True)
        for v, rid in pend.items():
            try:
                out = self.workers[v].recv(rid, budget)
            except WorkerDied:
                res[v] = self._retry(v, op, args, budget * retry_factor, died=True)
                continue
            except WorkerTimeout:
                res[v] = self._retry(v, op, args, budget * retry_factor, died=False)
                continue
            res[v] = self._unwrap(v, out)
        return res

    def call_one(self, version, op, args, budget=None):
        return self.call(op, args, [version], budget)[version]

    def _unwrap(self, v, out):
        if not out.get("ok"):
            raise HarnessError("worker %s: %s" % (v, out.get("error")))
        return out["result"]

    def _retry(self, v, op, args, budget, died):
        w = self.workers[v]
        self.stats["crashes" if died else "timeouts"] += 1
        self.stats["restarts"] += 1
        w.restart()
        try:
            rid = w.send(op, args)
            out = w.recv(rid, budget)
            return self._unwrap(v, out)
        except WorkerDied:
            w.restart()
            return {"status": "crash", "violations": [], "features": {}, "info": {}}
        except WorkerTimeout:
            w.restart()
            return {"status": "inconclusive", "why": "timeout", "violations": [], "features": {}, "info": {}}

    def close(self):
        for w in self.workers.values():
            w.close()
        self.workers = {}
