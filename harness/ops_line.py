# C10 ops: line-table codec vs CPython.  py3.7, stdlib only.
import ast
import copy
import opcode
import sys
import types
import warnings

import linemodels
import refs
from ops import Reject, Verdict, compile_case, exc_detail, exc_sig, get_source, lib, op
from ops_const import code_replace

V = sys.version_info[:2]
AT310 = V >= (3, 10)
NATIVE = "linetable" if AT310 else "lnotab"
FLAVOUR = "37" if V == (3, 7) else "38" if V == (3, 8) else "39" if V == (3, 9) else "310"
NOP = opcode.opmap["NOP"]
BUILD_TUPLE = opcode.opmap["BUILD_TUPLE"]
EXT = opcode.EXTENDED_ARG
_template = None


def lm():
    from code_data import _line_mapping
    return _line_mapping


def carrier(groups, table, first):
    """code object holding `table`; instruction widths per `groups` (integer-operand
    opcodes whose operand value forces the width, so the prefixes are not redundant)"""
    global _template
    if _template is None:
        _template = compile("pass", "<carrier>", "exec")
    b = bytearray()
    for g in groups:
        if g == 1:
            b += bytes([NOP, 0])
        elif g == 2:
            b += bytes([EXT, 1, BUILD_TUPLE, 0])
        elif g == 3:
            b += bytes([EXT, 1, EXT, 0, BUILD_TUPLE, 0])
        else:
            raise Reject("group width")
    kw = {"co_code": bytes(b), "co_firstlineno": first}
    kw["co_linetable" if AT310 else "co_lnotab"] = table
    try:
        return code_replace(_template, **kw)
    except (ValueError, TypeError) as e:
        raise Reject("constructor refused: %s" % e)


def _items_repr(items):
    return [(i.bytecode_offset, i.line_offset) for i in items]


def check_stages(table, ncode_bytes, is_linetable, v, ref, first, tag):
    """(4) each stage pair is a round trip; (1') the mapping equals the reference
    reading `ref` ({offset: absolute line or None}); (2) bytes reproduced"""
    L = lm()
    fmt = "linetable" if is_linetable else "lnotab"
    try:
        items = L.bytes_to_items(table)
        if L.items_to_bytes(copy.deepcopy(items)) != table:
            v.violate("stage_roundtrip", "bytes_items:" + fmt, "%s: items_to_bytes(bytes_to_items(t)) != t for %s" % (tag, list(table)[:40]))
        collapsed = L.collapse_items(copy.deepcopy(items), is_linetable)
        expanded = L.expand_items(copy.deepcopy(collapsed), is_linetable)
        if _items_repr(expanded) != _items_repr(items):
            v.violate("stage_roundtrip", "collapse_expand:" + fmt, "%s: table %s collapsed %s expanded %s"
                      % (tag, _items_repr(items)[:24], _items_repr(collapsed)[:24], _items_repr(expanded)[:24]))
        mapping = L.items_to_mapping(copy.deepcopy(collapsed), ncode_bytes, is_linetable)
        back_items = L.mapping_to_items(copy.deepcopy(mapping), is_linetable)
        if _items_repr(back_items) != _items_repr(collapsed):
            v.violate("stage_roundtrip", "mapping_items:" + fmt, "%s: collapsed %s -> mapping -> %s"
                      % (tag, _items_repr(collapsed)[:24], _items_repr(back_items)[:24]))
        for o in range(0, ncode_bytes, 2):
            exp = ref.get(o)
            got = mapping.offset_to_line.get(o, "missing")
            if got != "missing" and got is not None:
                got = got + first
            if got != exp:
                v.violate("mapping_wrong", fmt, "%s: offset %d: decoded line %r, reference reader %r; table %s"
                          % (tag, o, got, exp, list(table)[:40]))
                break
        whole = L.items_to_bytes(L.expand_items(L.mapping_to_items(copy.deepcopy(mapping), is_linetable), is_linetable))
        if whole != table:
            v.violate("reencode_differs", fmt, "%s: table %s re-encoded as %s" % (tag, list(table)[:40], list(whole)[:40]))
    except Exception as e:
        v.violate("codec_raises", "%s:%s" % (fmt, exc_sig(e)), "%s: %s on table %s" % (tag, exc_detail(e), list(table)[:40]))


def check_native_code(c, v, tag, full_api):
    """(1) (2) (3) (4) on a code object of this interpreter"""
    L = lm()
    table = refs.line_table_bytes(c)
    ref = refs.line_map(c)
    n = len(c.co_code)
    try:
        mapping = L.to_line_mapping(c)
        for o in range(0, n, 2):
            got = mapping.offset_to_line.get(o, "missing")
            if got != "missing" and got is not None:
                got += c.co_firstlineno
            if got != ref[o]:
                v.violate("mapping_wrong", NATIVE + ":to_line_mapping", "%s: offset %d decoded %r, CPython %r; table %s"
                          % (tag, o, got, ref[o], list(table)[:40]))
                break
        back = L.from_line_mapping(L.to_line_mapping(c))
        if back != table:
            v.violate("reencode_differs", NATIVE + ":from_line_mapping", "%s: table %s re-encoded as %s" % (tag, list(table)[:40], list(back)[:40]))
    except Exception as e:
        v.violate("codec_raises", "%s:%s" % (NATIVE, exc_sig(e)), "%s: %s; table %s" % (tag, exc_detail(e), list(table)[:40]))
    check_stages(table, n, AT310, v, ref, c.co_firstlineno, tag)
    if full_api:
        CodeData = lib().CodeData
        try:
            cd = CodeData.from_code(c)
        except Exception as e:
            if tag.startswith("real/") and "_line_mapping" not in exc_sig(e):
                v.features["skipped_from_code_raises"] += 1  # C01's business
            else:
                v.violate("from_code_raises", exc_sig(e), "%s: %s; table %s" % (tag, exc_detail(e), list(table)[:40]))
            return
        us = refs.units(c.co_code)
        flat = [i for blk in cd.blocks for i in blk]
        if len(flat) == len(us):
            for ins, (first, off, opc, arg) in zip(flat, us):
                if ins.line_number != ref[first]:
                    v.violate("instruction_line", NATIVE, "%s: instruction at %d decoded line %r, CPython %r; table %s"
                              % (tag, first, ins.line_number, ref[first], list(table)[:40]))
                    break
        try:
            r = cd.to_code()
        except Exception as e:
            v.violate("to_code_raises", exc_sig(e), "%s: %s; table %s" % (tag, exc_detail(e), list(table)[:40]))
            return
        back = refs.line_table_bytes(r)
        if back != table:
            sub = NATIVE
            if not AT310:
                import ops_prog
                # the same strict classification as C01: only if the moved mid-instruction entries
                # explain the whole difference
                if ops_prog._classify_lnotab_diff(c, r, c.co_name) == "co_lnotab:mid_instruction_entry":
                    sub = "lnotab:mid_instruction_entry"
            v.violate("full_api_table_differs", sub, "%s: table %s re-encoded by from_code/to_code as %s" % (tag, list(table)[:40], list(back)[:40]))


def table_features(table, is_linetable, feats):
    prev_ld = None
    for i in range(0, len(table), 2):
        bd = table[i]
        ld = linemodels.sg(table[i + 1])
        if is_linetable:
            if ld == -128:
                feats["noline_entry"] += 1
                if bd == 254:
                    feats["noline_run_gt254"] += 1
            if ld in (127, -127) and bd == 0:
                feats["split_line"] += 1
            if bd == 254:
                feats["split_bytes"] += 1
            if ld == 127:
                feats["exact_127"] += 1
        else:
            if ld in (127, -128):
                feats["split_line"] += 1
            if bd == 255:
                feats["split_bytes"] += 1
            if bd == 0 and i > 0 and prev_ld not in (127, -128):
                feats["zero_width"] += 1
            if ld == 0 and bd != 255:
                feats["dline0"] += 1
            if ld < 0:
                feats["negative_delta"] += 1
        prev_ld = ld


def _nontrivial(feats):
    return bool(feats.get("split_line") or feats.get("split_bytes") or feats.get("zero_width") or feats.get("noline_entry"))


# ---------------------------------------------------------------------- model-generated tables
@op("c10_table")
def op_c10_table(args):
    v = Verdict()
    fmt = args["fmt"]            # lnotab37 | lnotab38 | lnotab39 | linetable
    table = bytes.fromhex(args["table"])
    first = args["first"]
    groups = args["groups"]
    intended = args["intended"]  # per code unit: absolute line or None
    is_lt = fmt == "linetable"
    nbytes = 2 * sum(groups)
    table_features(table, is_lt, v.features)
    v.info["nontrivial"] = _nontrivial(v.features)
    native = (is_lt and AT310) or (fmt == "lnotab" + FLAVOUR) or (fmt == "lnotab38" and FLAVOUR == "37" and 255 not in table[1::2])
    if native:
        c = carrier(groups, table, first)
        try:
            ref = refs.line_map(c)
        except refs.HarnessError as e:
            # CPython's own two readers disagree on this table: not a table to judge the library by
            v.features["model_failure_cpython_readers_disagree"] += 1
            v.info["nontrivial"] = False
            v.info["readers_disagree"] = "%s table %s groups %s" % (e, list(table)[:40], groups[:20])
            import os
            if os.environ.get("VERIF_COLLECT"):
                v.violate("harness", "cpython_readers_disagree", v.info["readers_disagree"])
            return v.result()
        if [ref[o] for o in range(0, nbytes, 2)] != intended:
            # (i) the model did not emit what the program says: a *model* failure
            v.features["model_failure"] += 1
            v.info["nontrivial"] = False
            v.info["model_failure"] = "R-LINE %s vs intended %s for table %s" % ([ref[o] for o in range(0, nbytes, 2)][:20], intended[:20], list(table)[:30])
            return v.result()
        v.features["native_table"] += 1
        aligned = args.get("aligned", True)
        check_native_code(c, v, "model/" + fmt, full_api=aligned)
        if not aligned:
            v.features["entry_inside_instruction"] += 1
    else:
        v.features["foreign_table"] += 1
        if is_lt:
            ref = linemodels.read_linetable(table, first)
        else:
            ref = linemodels.read_lnotab(table, nbytes, first)
        if [ref.get(o) for o in range(0, nbytes, 2)] != intended:
            v.features["model_failure"] += 1
            v.info["nontrivial"] = False
            return v.result()
        check_stages(table, nbytes, is_lt, v, ref, first, "model-foreign/" + fmt)
    return v.result()


# ---------------------------------------------------------------------- real compiler output
def _validate_model(c, v):
    """(ii) the real table must be reproduced by the model from the abstract program
    re-derived from it by the model's grammar"""
    us = refs.units(c.co_code)
    instr = [(first, (off - first) // 2 + 1) for first, off, opc, arg in us]
    table = refs.line_table_bytes(c)
    if AT310:
        prog = [(n, refs.addr2line(c, s)) for s, n in instr]
        m = linemodels.model_linetable(prog, c.co_firstlineno)
    else:
        prog, left = linemodels.derive_lnotab(table, c.co_firstlineno, instr)
        if left:
            v.features["model_skip_entry_inside_instruction"] += 1
            return
        m = linemodels.model_lnotab(prog, c.co_firstlineno, FLAVOUR)
        if m is None:
            v.features["model_skip_bailout"] += 1
            return
    if m == table:
        v.features["model_validated_real_tables"] += 1
    else:
        v.features["model_mismatch_real_tables"] += 1
        v.info.setdefault("model_mismatch", "%s: real %s model %s" % (c.co_name, list(table)[:30], list(m)[:30]))


def check_program(code, v):
    feats_before = dict(v.features)
    for path, c in refs.walk_codes(code):
        table = refs.line_table_bytes(c)
        table_features(table, AT310, v.features)
        v.features["real_tables"] += 1
        check_native_code(c, v, "real/" + path, full_api=True)
        _validate_model(c, v)
    v.info["nontrivial"] = _nontrivial(v.features)


@op("c10_prog")
def op_c10_prog(args):
    code = compile_case(args["case"])
    v = Verdict()
    check_program(code, v)
    return v.result()


_REJ = (SyntaxError, ValueError, OverflowError, RecursionError, MemoryError, UnicodeError, TypeError, SystemError)


@op("c10_relabel")
def op_c10_relabel(args):
    """compile the program with its source lines relabelled by an arbitrary line map:
    drives the REAL assembler with arbitrary (byte gap, line delta) sequences"""
    src, fn = get_source(args["case"])
    linemap = args["linemap"]
    try:
        with warnings.catch_warnings():
            warnings.simplefilter("ignore")
            tree = ast.parse(src, fn, "exec")
    except _REJ as e:
        raise Reject("parse: %s" % type(e).__name__)
    n = len(linemap)
    for node in ast.walk(tree):
        if hasattr(node, "lineno") and node.lineno is not None:
            new = linemap[(node.lineno - 1) % n]
            node.lineno = new
            if getattr(node, "end_lineno", None) is not None:
                node.end_lineno = new
    try:
        with warnings.catch_warnings():
            warnings.simplefilter("ignore")
            code = compile(tree, fn, "exec", dont_inherit=True, optimize=args["case"].get("optimize", 0))
    except _REJ as e:
        raise Reject("compile: %s" % type(e).__name__)
    v = Verdict()
    v.features["relabelled_programs"] += 1
    check_program(code, v)
    return v.result()
