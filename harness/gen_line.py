# G-LINE: abstract line programs -> tables through the assembler models.  Driver side.
from hypothesis import strategies as st

import linemodels

UNITS = [1, 1, 1, 2, 3, 5, 63, 64, 65, 126, 127, 128, 129, 130, 254, 255, 256, 300, 510]
DELTAS = [0, 1, 1, 2, -1, -2, 126, 127, 128, 129, -126, -127, -128, -129, 253, 254, 255, 256, 257, -253, -254, -255, -256, -257,
          381, 382, -381, -384, 1000, -1000]


def intended_lnotab(prog, first):
    out = []
    cur = first
    for units, line, deleted in prog:
        if line is not None:
            cur = line
        if not deleted:
            out.extend([cur] * units)
    return out


def intended_linetable(prog, first):
    out = []
    for units, line in prog:
        out.extend([line] * units)
    return out


@st.composite
def line_programs(draw, max_instr=12):
    fmt = draw(st.sampled_from(["lnotab37", "lnotab38", "lnotab39", "linetable", "linetable"]))
    first = draw(st.sampled_from([1, 1, 2, 100, 1000, 5000]))
    n = draw(st.integers(1, max_instr))
    prog = []
    line = first
    if fmt == "linetable":
        for _ in range(n):
            units = draw(st.sampled_from(UNITS))
            k = draw(st.integers(0, 9))
            if k == 0:
                prog.append((units, None))
            else:
                if k >= 4:
                    line = max(1, line + draw(st.sampled_from(DELTAS)))
                prog.append((units, line))
        groups = []
        prog2 = []
        for u, l in prog:
            left = u
            while left > 0:
                w = 1 if (left > 40 and draw(st.integers(0, 9))) else min(left, draw(st.sampled_from([1, 1, 1, 2, 3])))
                groups.append(w)
                prog2.append((w, l))
                left -= w
        table = linemodels.model_linetable(prog2, first)
        intended = intended_linetable(prog2, first)
        aligned = True
    else:
        deletions = draw(st.integers(0, 2))
        for i in range(n):
            units = draw(st.sampled_from(UNITS))
            k = draw(st.integers(0, 9))
            deleted = deletions > 0 and draw(st.integers(0, 3)) == 0
            if deleted:
                units = draw(st.sampled_from([1, 1, 2]))
            if k <= 1 and i > 0:
                mark = None                  # unmarked (<=3.8) / same line (3.9)
            elif k == 2:
                mark = line                  # marked with the SAME line again (dline-0 entry on <=3.8)
            else:
                line = max(1, line + draw(st.sampled_from(DELTAS)))
                mark = line
            prog.append((units, mark, deleted))
        if all(d for _u, _l, d in prog):
            prog.append((1, None, False))
        groups, prog = _split_groups(draw, prog)
        table = linemodels.model_lnotab(prog, first, fmt[-2:])
        intended = intended_lnotab(prog, first)
        aligned = True
        if table is None:
            # optimizer bail-out: nothing is deleted
            prog = [(u, l, False) for u, l, _d in prog]
            groups = [u for u, _l, _d in prog]
            groups, prog = _regroup(groups, prog)
            table = linemodels.model_lnotab(prog, first, fmt[-2:])
            intended = intended_lnotab(prog, first)
    if table is None or not groups:
        table = b""
        groups = [1]
        intended = [first] if fmt != "linetable" else [first]
        prog = []
        if fmt == "linetable":
            table = bytes([2, 0])
    return {"fmt": fmt, "table": table.hex(), "first": first, "groups": groups, "intended": intended, "aligned": aligned,
            "prog": [list(p) for p in prog][:40], "_label": "model_" + fmt}


def _split_groups(draw, prog):
    """carrier instruction widths: every surviving instruction of u units becomes
    instructions of 1-3 units (entries fall on instruction starts)"""
    groups = []
    out = []
    for units, line, deleted in prog:
        if deleted:
            out.append((units, line, deleted))
            continue
        left = units
        firstpart = True
        while left > 0:
            if left <= 3 and draw(st.integers(0, 3)) == 0:
                w = left
            elif left > 40:
                w = 1 if draw(st.integers(0, 9)) else min(3, left)
            else:
                w = min(left, draw(st.sampled_from([1, 1, 1, 2, 3])))
            groups.append(w)
            out.append((w, line if firstpart else None, False))
            firstpart = False
            left -= w
    # merge back: the abstract program keeps original instruction boundaries for marks;
    # widths only matter for the carrier.  Unmarked continuation parts are fine for
    # <=3.8 (unmarked) and mean "same line" on 3.9 / must carry the line on 3.10.
    fixed = []
    cur = None
    for w, line, deleted in out:
        if line is not None or deleted:
            cur = line
            fixed.append((w, line, deleted))
        else:
            fixed.append((w, None, deleted))
    return groups, _carry_lines(fixed)


def _carry_lines(prog):
    """for the linetable model a continuation part must carry its instruction's line;
    for lnotab None means unmarked, which is equivalent"""
    return prog


def _regroup(groups, prog):
    return groups, prog
