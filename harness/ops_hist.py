# Call histories (G-OPS): worker-side sessions for the C12 and C06 state machines.
# py3.7, stdlib only.
import copy
import json
import marshal
import sys
import types

import refs
from ops import Reject, Verdict, compile_case, exc_detail, exc_sig, lib, op
from ops_json import get_code

CodeType = types.CodeType
SESSIONS = {}
_next = [0]


def _ctext(doc):
    """type-exact canonical text of a JSON document: a list that became a tuple, an int that
    became a bool, or a non-JSON object all change it"""
    def t(d):
        if isinstance(d, dict):
            return {"<dict>": sorted(([repr(k), t(val)] for k, val in d.items()), key=lambda kv: kv[0])} if type(d) is dict else \
                {"<%s>" % type(d).__name__: repr(d)}
        if type(d) is list:
            return [t(i) for i in d]
        if type(d) is tuple:
            return {"<tuple>": [t(i) for i in d]}
        if type(d) in (str, int, float, bool) or d is None:
            return [type(d).__name__, repr(d)]
        return {"<non-JSON %s>" % type(d).__name__: repr(d)[:80]}
    return json.dumps(t(doc), ensure_ascii=True)


class Sess(object):
    pass


@op("hist_open")
def op_hist_open(args):
    L = lib()
    s = Sess()
    s.kind = args["kind"]
    s.code = get_code(args)
    s.code0 = marshal.loads(marshal.dumps(s.code))
    try:
        s.d = L.CodeData.from_code(s.code)
    except Exception as e:
        raise Reject("from_code raises: %s" % exc_sig(e))
    s.nsteps = 0
    s.rules = set()
    v = Verdict()
    if s.kind == "c12":
        try:
            s.d2 = L.CodeData.from_code(s.code)
            s.repr0 = repr(s.d)
            s.n = s.d.normalize()
            s.n2 = s.d.normalize()
            s.nrepr0 = repr(s.n)
            s.j = s.d.to_json_data()
            s.j0_text = _ctext(s.j)
            s.nj = s.n.to_json_data()
            s.nj0_text = _ctext(s.nj)
            s.first = {}
        except Exception as e:
            raise Reject("setup raises: %s (another property's business)" % exc_sig(e))
        has_args = any(isinstance(x.type, L.Function) and len(x.type.args) for x in s.d.all_code_data())
        tagged = '{"' in s.j0_text and any(t in s.j0_text for t in ('"bytes":', '"frozenset":', '"real":', '"float":', '"int":', '"string":'))
        v.info["interesting_program"] = bool(has_args or tagged)
    elif s.kind == "c06":
        try:
            s.canon = s.d.normalize()
            s.canon_hash = hash(s.canon)
        except Exception as e:
            raise Reject("normalize raises: %s" % exc_sig(e))
        s.cur = s.d
        v.info["has_override"] = s.d != s.canon
        if s.canon.normalize() != s.canon:
            v.violate("not_idempotent", "initial", "normalize(normalize(x)) != normalize(x)")
    _next[0] += 1
    h = _next[0]
    SESSIONS[h] = s
    r = v.result()
    r["handle"] = h
    return r


@op("hist_close")
def op_hist_close(args):
    SESSIONS.pop(args.get("handle"), None)
    return {"status": "ok"}


@op("hist_step")
def op_hist_step(args):
    s = SESSIONS.get(args["handle"])
    if s is None:
        raise Reject("no session")
    v = Verdict()
    rule = args["rule"]
    s.nsteps += 1
    s.rules.add(rule)
    if s.kind == "c12":
        _c12_step(s, rule, args.get("arg"), v)
        _c12_invariant(s, v)
    else:
        _c06_step(s, rule, args.get("arg"), v)
    v.info["nsteps"] = s.nsteps
    v.info["nrules"] = len(s.rules)
    return v.result()


# ---------------------------------------------------------------------- C12
def _shift_lines(code):
    """the same code with every line moved down by one through the line table alone
    (co_firstlineno, which code equality does compare, stays); None if not expressible"""
    if sys.version_info >= (3, 10):
        t = code.co_linetable
        if len(t) < 2 or t[1] in (0x80, 0x7F):
            return None
        return {"co_linetable": bytes([t[0], (t[1] + 1) & 0xFF]) + t[2:]}
    return {"co_lnotab": b"\x00\x01" + code.co_lnotab}


def _lookalike(code, tag):
    """a code object that compares equal to `code` (code.__eq__ ignores file name, stack size and
    line table) but is not the same.  tag 1: other file name; 2: other stack size; 3: both;
    4: only the line table differs (same file, same stack size)"""
    from ops_const import code_replace
    consts = tuple(_lookalike(k, tag) if isinstance(k, CodeType) else k for k in code.co_consts)
    kw = {"co_consts": consts}
    if tag in (1, 3):
        kw["co_filename"] = "%s.look%d" % (code.co_filename, tag)
    if tag in (2, 3):
        kw["co_stacksize"] = code.co_stacksize + tag
    if tag == 4:
        sh = _shift_lines(code)
        if sh is None:
            kw["co_stacksize"] = code.co_stacksize + 1
        else:
            kw.update(sh)
    return code_replace(code, **kw)


def _first(s, key, value, v, eq=None):
    """the k-th result of a call must equal the first"""
    if key not in s.first:
        s.first[key] = value
        return
    a = s.first[key]
    if eq is not None:
        ok = eq(a, value)
    else:
        ok = a == value
    if not ok:
        v.violate("not_repeatable", key, "the n-th result of %s differs from the first" % key)
    else:
        v.features["repeated_call"] += 1


def _code_same(a, b):
    return not refs.ident_diff(a, b, nan_bits=False, limit=1)


def _sub_docs(doc, out):
    """all CodeData documents inside a document (the document itself first)"""
    if isinstance(doc, dict):
        if "filename" in doc and "blocks" in doc:
            out.append(doc)
        for x in doc.values():
            _sub_docs(x, out)
    elif isinstance(doc, list):
        for x in doc:
            _sub_docs(x, out)
    return out


def _containers(doc, out):
    if isinstance(doc, (dict, list)):
        out.append(doc)
        for x in (doc.values() if isinstance(doc, dict) else doc):
            _containers(x, out)
    return out


def _mutate(doc, path, action):
    """even path[0]: walk `path` (ints taken modulo the size at each level) into doc; odd path[0]: pick
    one of ALL dict/list nodes of the document uniformly (index path[1] modulo their number) - tagged
    constant dicts deep inside are then hit as often as the top level; apply a mutation there"""
    cur = doc
    if path and path[0] % 2 == 1:
        nodes = _containers(doc, [])
        cur = nodes[(path[1] if len(path) > 1 else 0) * 7919 % len(nodes)]
        path = []
        if isinstance(cur, dict) and cur and action % 2 == 0:
            k = sorted(cur)[0]
            cur[k] = "MUTATED"
            return "overwrite first value of a container chosen among all %d" % len(nodes)
    trail = []
    for p in path:
        if isinstance(cur, dict) and cur:
            keys = sorted(cur)
            k = keys[p % len(keys)]
            nxt = cur[k]
            trail.append(k)
        elif isinstance(cur, list) and cur:
            k = p % len(cur)
            nxt = cur[k]
            trail.append(k)
        else:
            break
        if not isinstance(nxt, (dict, list)):
            # leaf: overwrite it
            cur[k] = "MUTATED"
            return "overwrite leaf %r" % (trail,)
        cur = nxt
    if isinstance(cur, list):
        if action == 0:
            cur.append("MUTATED")
        elif action == 1 and cur:
            cur.pop()
        elif action == 2:
            del cur[:]
        else:
            cur.insert(0, {"MUTATED": 1})
    elif isinstance(cur, dict):
        if action == 0:
            cur["MUTATED"] = 1
        elif action == 1 and cur:
            cur.pop(sorted(cur)[0])
        elif action == 2:
            cur.clear()
        else:
            for k in list(cur):
                cur[k] = None
    return "action %d at %r" % (action, trail)


def _c12_step(s, rule, arg, v):
    L = lib()
    which = "n" if (arg or {}).get("norm") else "d"
    obj = s.n if which == "n" else s.d
    doc = s.nj if which == "n" else s.j
    try:
        if rule == "from_code_again":
            _first(s, "from_code", L.CodeData.from_code(s.code), v)
            if L.CodeData.from_code(s.code) != s.d:
                v.violate("not_repeatable", "from_code_vs_original", "")
        elif rule == "to_code_again":
            _first(s, "to_code:" + which, obj.to_code(), v, _code_same)
        elif rule == "normalize_again":
            _first(s, "normalize:" + which, obj.normalize(), v)
        elif rule == "to_json_again":
            _first(s, "to_json:" + which, _ctext(obj.to_json_data()), v)
        elif rule == "from_json_again":
            # on the SAME dict object, as the benchmark suite does
            _first(s, "from_json:" + which, L.CodeData.from_json_data(doc), v)
        elif rule == "from_json_nested":
            subs = _sub_docs(doc, [])
            sub = subs[(arg or {}).get("i", 0) % len(subs)]
            before = _ctext(sub)
            y1 = L.CodeData.from_json_data(sub)
            y2 = L.CodeData.from_json_data(sub)
            if y1 != y2:
                v.violate("not_repeatable", "from_json_nested", "")
            # one sub-document shared by two parents
            shared = {"blocks": [[{"name": "LOAD_CONST", "arg": {"constant": sub}},
                                  {"name": "LOAD_CONST", "arg": {"constant": sub, "_index_override": 1}}]],
                      "filename": "f", "first_line_number": 1, "name": "n", "stacksize": 1}
            z1 = L.CodeData.from_json_data(shared)
            z2 = L.CodeData.from_json_data(shared)
            if z1 != z2:
                v.violate("not_repeatable", "from_json_shared", "")
            if _ctext(sub) != before:
                v.violate("argument_mutated", "from_json_data:nested_document", "sub-document changed by from_json_data")
            v.features["repeated_call"] += 1
        elif rule == "mutate_returned_json":
            jm = obj.to_json_data()
            desc = _mutate(jm, (arg or {}).get("path", [0]), (arg or {}).get("action", 0))
            v.features["mutations"] += 1
            after = _ctext(obj.to_json_data())
            if after != (s.nj0_text if which == "n" else s.j0_text):
                v.violate("shared_state", "to_json_data_after_mutation", "mutating a returned document (%s) changed a later to_json_data()" % desc)
        elif rule == "decode_lookalike":
            # a code object that compares equal to the session's (code equality ignores the file
            # name and the stack size) but is not the same: results must not leak between them
            look = _lookalike(s.code, (arg or {}).get("tag", 1))
            dl = L.CodeData.from_code(look)
            d = refs.ident_diff(look, dl.to_code(), nan_bits=True, limit=2)
            # whatever the plain round trip of the session's own code object loses is C01's / C11's
            # business (hand-altered code objects); only what is NEW for the look-alike is shared state
            base = set(f for _p, f, _d in refs.ident_diff(s.code, s.d.to_code(), nan_bits=True, limit=20))
            d = [x for x in d if x[1] not in base]
            if d:
                v.violate("shared_state", "from_code_lookalike:" + d[0][1],
                          "from_code of a look-alike code object (other file name / stack size / line table) does not describe it: %s %s" % (d[0][0], d[0][2]))
            again = L.CodeData.from_code(s.code)
            if again != s.d:
                v.violate("not_repeatable", "from_code_after_lookalike", "from_code(c) changed after decoding a look-alike of c")
            d2 = [x for x in refs.ident_diff(s.code, again.to_code(), nan_bits=True, limit=2) if x[1] not in base]
            if d2:
                v.violate("shared_state", "from_code_after_lookalike:" + d2[0][1], "%s %s" % (d2[0][0], d2[0][2]))
            v.features["lookalike_decodes"] += 1
            v.features["lookalike_tag%d" % (arg or {}).get("tag", 1)] += 1
            v.features["repeated_call"] += 1
        elif rule == "from_json_then_mutate":
            # mutate the argument AFTER loading: the loaded value must not change
            jm = copy.deepcopy(doc)
            y = L.CodeData.from_json_data(jm)
            r0 = repr(y)
            desc = _mutate(jm, (arg or {}).get("path", [0]), (arg or {}).get("action", 0))
            if repr(y) != r0:
                v.violate("shared_state", "from_json_data_result_aliases_argument", "mutating the document after loading (%s) changed the loaded CodeData" % desc)
            v.features["mutations"] += 1
        else:
            raise Reject("unknown rule " + rule)
    except Reject:
        raise
    except Exception as e:
        v.violate("raises_on_repeat", "%s:%s" % (rule, exc_sig(e)), "%s raised %s although the first calls succeeded" % (rule, exc_detail(e)))


def _c12_invariant(s, v):
    d = refs.ident_diff(s.code, s.code0, nan_bits=True, limit=2)
    if d:
        v.violate("argument_mutated", "code_object:" + d[0][1], d[0][2])
    if _ctext(s.j) != s.j0_text:
        v.violate("argument_mutated", "from_json_data:document", "the JSON document passed to from_json_data changed")
    if _ctext(s.nj) != s.nj0_text:
        v.violate("argument_mutated", "from_json_data:document_normalized", "the JSON document passed to from_json_data changed")
    try:
        if s.d != s.d2 or repr(s.d) != s.repr0:
            v.violate("argument_mutated", "CodeData", "the CodeData changed")
        if s.n != s.n2 or repr(s.n) != s.nrepr0:
            v.violate("argument_mutated", "CodeData_normalized", "the normalized CodeData changed")
    except Exception as e:
        v.violate("invariant_raises", exc_sig(e), exc_detail(e))


# ---------------------------------------------------------------------- C06 (histories)
def _c06_step(s, rule, arg, v):
    L = lib()
    try:
        if rule == "code_roundtrip":
            s.cur = L.CodeData.from_code(s.cur.to_code())
        elif rule == "json_roundtrip":
            s.cur = L.CodeData.from_json_data(json.loads(json.dumps(s.cur.to_json_data(), allow_nan=False)))
        elif rule == "normalize":
            s.cur = s.cur.normalize()
        elif rule == "renormalize_twice":
            s.cur = s.cur.normalize().normalize()
        else:
            raise Reject("unknown rule " + rule)
    except Reject:
        raise
    except Exception as e:
        v.violate("step_raises", "%s:%s" % (rule, exc_sig(e)), exc_detail(e))
        return
    try:
        n = s.cur.normalize()
        if n != s.canon:
            v.violate("not_canonical", rule, "normalize() after %d steps differs from the first normal form%s" % (s.nsteps, _diff_hint(s.canon, n)))
        elif hash(n) != s.canon_hash:
            v.violate("not_canonical", "hash", "equal normal forms, different hashes")
        if n.normalize() != n:
            v.violate("not_idempotent", rule, "normalize(normalize(x)) != normalize(x)")
    except Exception as e:
        v.violate("invariant_raises", exc_sig(e), exc_detail(e))


def _diff_hint(a, b):
    import dataclasses
    try:
        for f in dataclasses.fields(a):
            x, y = getattr(a, f.name), getattr(b, f.name)
            if x != y:
                if f.name == "blocks":
                    fa = [i for blk in x for i in blk]
                    fb = [i for blk in y for i in blk]
                    for i, (p, q) in enumerate(zip(fa, fb)):
                        if p != q:
                            return " (instruction %d: %.150r vs %.150r)" % (i, p, q)
                    return " (blocks: %d vs %d instructions, %d vs %d blocks)" % (len(fa), len(fb), len(x), len(y))
                return " (field %s: %.120r vs %.120r)" % (f.name, x, y)
    except Exception:
        pass
    return ""
