# JSON ops: C07 (strict / schema / round trip), C15 (portability).  py3.7, stdlib only.
import json
import sys
import types

import refs
from ops import Reject, Verdict, compile_case, exc_detail, exc_sig, lib, op
from ops_const import build_const, code_replace

CodeType = types.CodeType
V = sys.version_info[:2]

ALTER_BASE = ("def f(a):\n    'doc'\n    v = 12345\n    return a.attr + v\n"
              "x = 12345\n"
              "def g(fv, *, kwo=1):\n    def h():\n        return fv\n    return h\n"
              # a documented function WITHOUT parameters: its JSON "type" has a docstring but no "args" key
              "def k():\n    'kdoc'\n    return 0\n")


def _replace_nested(code, fn):
    """apply fn to every nested code object (bottom-up) and to code itself"""
    consts = tuple(_replace_nested(k, fn) if isinstance(k, CodeType) else k for k in code.co_consts)
    return fn(code_replace(code, co_consts=consts))


def build_altered(alter):
    """hand-altered code object: values source cannot produce, in chosen positions"""
    base = compile(ALTER_BASE, "<alter>", "exec")
    kind = alter["kind"]
    val = build_const(alter["value"]) if isinstance(alter["value"], list) else alter["value"]

    def is_f(c):
        return c.co_name == "f"

    if kind == "operand":
        def fn(c):
            return code_replace(c, co_consts=tuple(val if (type(k) is int and k == 12345) else k for k in c.co_consts))
    elif kind == "additional":
        def fn(c):
            return code_replace(c, co_consts=c.co_consts + (val,)) if not is_f(c) else c
    elif kind == "additional_group":
        # several near-miss constants side by side in one table
        def fn(c):
            return code_replace(c, co_consts=c.co_consts + tuple(val)) if not is_f(c) else c
    elif kind == "additional_fn":
        def fn(c):
            return code_replace(c, co_consts=c.co_consts + (val,)) if is_f(c) else c
    elif kind == "docstring":
        if not isinstance(val, str):
            raise Reject("docstring must be str")

        def fn(c):
            return code_replace(c, co_consts=(val,) + c.co_consts[1:]) if (is_f(c) or c.co_name == "k") else c
    elif kind == "names":
        def fn(c):
            return code_replace(c, co_names=tuple(val if n == "attr" else n for n in c.co_names)) if is_f(c) else c
    elif kind == "varnames":
        def fn(c):
            return code_replace(c, co_varnames=tuple(val if n == "v" else n for n in c.co_varnames)) if is_f(c) else c
    elif kind == "argname":
        def fn(c):
            return code_replace(c, co_varnames=tuple(val if n == "a" else n for n in c.co_varnames)) if is_f(c) else c
    elif kind == "freevar_name":
        def fn(c):
            if c.co_name == "h":
                return code_replace(c, co_freevars=tuple(val if n == "fv" else n for n in c.co_freevars))
            if c.co_name == "g":
                return code_replace(c, co_cellvars=tuple(val if n == "fv" else n for n in c.co_cellvars),
                                    co_varnames=tuple(val if n == "fv" else n for n in c.co_varnames))
            return c
    elif kind == "kwonly_name":
        def fn(c):
            return code_replace(c, co_varnames=tuple(val if n == "kwo" else n for n in c.co_varnames)) if c.co_name == "g" else c
    elif kind == "co_name":
        def fn(c):
            return code_replace(c, co_name=val) if is_f(c) else c
    elif kind == "filename":
        def fn(c):
            return code_replace(c, co_filename=val)
    elif kind == "global_name":
        def fn(c):
            return code_replace(c, co_names=tuple(val if n == "x" else n for n in c.co_names)) if not is_f(c) else c
    else:
        raise Reject("unknown alteration")
    if kind in ("names", "varnames", "argname", "co_name", "filename", "global_name", "freevar_name", "kwonly_name") and not isinstance(val, str):
        raise Reject("needs str")
    try:
        return _replace_nested(base, fn)
    except (TypeError, ValueError) as e:
        raise Reject("constructor refused: %s" % e)


def get_code(args):
    if args.get("alter"):
        return build_altered(args["alter"])
    return compile_case(args["case"])


def get_x(args):
    L = lib()
    code = get_code(args)
    try:
        x = L.CodeData.from_code(code)
    except Exception as e:
        raise Reject("from_code raises: %s (C01/C11's business)" % exc_sig(e))
    if args.get("normalize"):
        x = x.normalize()
    return code, x


# ---------------------------------------------------------------------- strictness walker
def strict_walk(doc, v, path="$", depth=0):
    t = type(doc)
    if doc is None or t is bool:
        return
    if t is str:
        try:
            doc.encode("utf-8")
        except UnicodeEncodeError:
            v.violate("not_strict", "str_not_utf8", "%s: %r" % (path, doc[:40]))
        return
    if t is int:
        if abs(doc) > 2 ** 53:
            v.violate("not_strict", "int_beyond_2_53", "%s: %d" % (path, doc))
        return
    if t is float:
        if doc != doc or doc in (float("inf"), float("-inf")):
            v.violate("not_strict", "non_finite_float", "%s: %r" % (path, doc))
        return
    if t is list:
        for i, x in enumerate(doc):
            strict_walk(x, v, "%s[%d]" % (path, i), depth + 1)
        return
    if t is dict:
        for k, x in doc.items():
            if type(k) is not str:
                v.violate("not_strict", "non_str_key", "%s: key %r" % (path, k))
            else:
                strict_walk(k, v, path + ".<key>", depth + 1)
            strict_walk(x, v, "%s.%s" % (path, k), depth + 1)
        return
    v.violate("not_strict", "type_" + t.__name__, "%s: %r" % (path, doc))


def json_tag_features(doc, feats, pos="operand"):
    """which tagged encodings / positions does the document exercise"""
    if isinstance(doc, dict):
        keys = set(doc)
        if keys == {"bytes"}:
            feats["tag_bytes"] += 1
        elif keys == {"real", "imag"}:
            feats["tag_complex"] += 1
        elif keys == {"float"}:
            feats["tag_float_" + str(doc["float"])] += 1
        elif keys == {"int"}:
            feats["tag_int"] += 1
        elif keys == {"type"} and doc.get("type") == "ellipsis":
            feats["tag_ellipsis"] += 1
        elif keys == {"frozenset"}:
            feats["tag_frozenset"] += 1
        elif keys == {"string"}:
            feats["tag_string"] += 1
        if "filename" in doc and "blocks" in doc:
            feats["codedata_docs"] += 1
            for k in ("filename", "name"):
                if isinstance(doc.get(k), dict):
                    feats["tag_string_in_" + k] += 1
        if isinstance(doc.get("docstring"), dict):
            feats["tag_string_in_docstring"] += 1
        for k, x in doc.items():
            if k == "_additional_args":
                feats["has_additional_args"] += 1
            json_tag_features(x, feats)
    elif isinstance(doc, list):
        for x in doc:
            json_tag_features(x, feats)


def _consts_of(L, cd, out):
    for blk in cd.blocks:
        for ins in blk:
            a = ins.arg
            if isinstance(a, L.Constant):
                out.append(a.constant)
    for a in cd._additional_args:
        if isinstance(a, L.Constant):
            out.append(a.constant)
    return out


def parallel_const_check(L, x, y, v, where):
    cx = _consts_of(L, x, [])
    cy = _consts_of(L, y, [])
    if len(cx) != len(cy):
        v.violate("roundtrip", "const_count", "%s: %d vs %d" % (where, len(cx), len(cy)))
        return
    for a, b in zip(cx, cy):
        ia, ib = isinstance(a, L.CodeData), isinstance(b, L.CodeData)
        if ia or ib:
            if ia and ib:
                parallel_const_check(L, a, b, v, where)
            else:
                v.violate("roundtrip", "const_kind", "%s: nested code vs plain" % where)
        else:
            try:
                ka, kb = refs.ckey(a), refs.ckey(b)
            except refs.HarnessError:
                v.violate("roundtrip", "const_type", "%s: %r became %r" % (where, a, b))
                continue
            if ka != kb:
                v.violate("roundtrip", "const_value", "%s: %r became %r" % (where, a, b))


def check_back(L, x, text, v, where):
    """parse text, load, compare with x"""
    try:
        parsed = json.loads(text)
    except Exception as e:
        v.violate("not_strict", "does_not_parse", "%s: %s" % (where, exc_detail(e)))
        return None
    try:
        y = L.CodeData.from_json_data(parsed)
    except Exception as e:
        v.violate("from_json_raises", exc_sig(e), "%s: %s" % (where, exc_detail(e)))
        return None
    try:
        eq = (y == x)
    except Exception as e:
        v.violate("eq_raises", exc_sig(e), "%s: %s" % (where, exc_detail(e)))
        eq = None
    if eq is False:
        v.violate("roundtrip", "not_equal", "%s: from_json_data(parse(dump(x))) != x%s" % (where, _first_field_diff(x, y)))
    try:
        if eq and hash(y) != hash(x):
            v.violate("roundtrip", "hash_differs", where)
    except Exception as e:
        v.violate("hash_raises", exc_sig(e), "%s: %s" % (where, exc_detail(e)))
    parallel_const_check(L, x, y, v, where)
    try:
        cx = x.to_code()
    except Exception:
        v.features["x_to_code_raises"] += 1
        return y
    try:
        cy = y.to_code()
    except Exception as e:
        v.violate("to_code_raises_after_json", exc_sig(e), "%s: %s" % (where, exc_detail(e)))
        return y
    d = refs.ident_diff(cx, cy, nan_bits=False, limit=3)
    if d:
        v.violate("roundtrip", "to_code_differs:" + d[0][1], "%s: %s %s" % (where, d[0][0], d[0][2]))
    return y


def _first_field_diff(x, y):
    import dataclasses
    try:
        for f in dataclasses.fields(x):
            a, b = getattr(x, f.name), getattr(y, f.name)
            if a != b:
                return " (field %s: %.120r vs %.120r)" % (f.name, a, b)
    except Exception:
        pass
    return ""


@op("json_schema")
def op_json_schema(args):
    return {"status": "ok", "schema": lib().JSON_SCHEMA}


@op("c07_dump")
def op_c07_dump(args):
    L = lib()
    v = Verdict()
    code, x = get_x(args)
    try:
        doc = x.to_json_data()
    except Exception as e:
        v.violate("to_json_raises", exc_sig(e), exc_detail(e))
        v.info["nontrivial"] = False
        return v.result()
    if type(doc) is not dict:
        v.violate("not_strict", "top_not_dict", type(doc).__name__)
    strict_walk(doc, v)
    json_tag_features(doc, v.features)
    if args.get("alter"):
        v.features["altered_" + args["alter"]["kind"]] += 1
    if args.get("normalize"):
        v.features["normalized_input"] += 1
    tagged = any(k.startswith("tag_") for k in v.features)
    v.info["nontrivial"] = bool(tagged or v.features.get("codedata_docs", 0) > 1)
    try:
        text = json.dumps(doc, allow_nan=False, ensure_ascii=True)
    except Exception as e:
        v.violate("not_strict", "dumps_allow_nan_false", exc_detail(e))
        return v.result()
    check_back(L, x, text, v, "json")
    r = v.result()
    r["text"] = text
    return r


@op("c07_back")
def op_c07_back(args):
    L = lib()
    v = Verdict()
    code, x = get_x(args)
    check_back(L, x, args["text"], v, args.get("where", "orjson"))
    return v.result()


# ---------------------------------------------------------------------- C15
def canon_doc(doc):
    """canonical text: sorted keys, and every {"frozenset": [...]} list sorted by
    the canonical text of its elements (the one freedom the statement grants)"""
    def norm(d):
        if isinstance(d, dict):
            if set(d) == {"frozenset"} and isinstance(d["frozenset"], list):
                items = [norm(i) for i in d["frozenset"]]
                items.sort(key=lambda i: json.dumps(i, sort_keys=True, ensure_ascii=True))
                return {"frozenset": items}
            return {k: norm(val) for k, val in d.items()}
        if isinstance(d, list):
            return [norm(i) for i in d]
        return d
    return json.dumps(norm(doc), sort_keys=True, ensure_ascii=True, allow_nan=False)


@op("c15_produce")
def op_c15_produce(args):
    v = Verdict()
    code, x = get_x(args)
    try:
        doc = x.to_json_data()
        ndoc = x.normalize().to_json_data()
        text = json.dumps(doc, ensure_ascii=True, allow_nan=False)
        r = v.result()
        feats = {}
        import collections
        c = collections.Counter()
        json_tag_features(doc, c)
        r["features"] = dict(c)
        r["text"] = text
        r["canon"] = canon_doc(doc)
        r["canon_normalized"] = canon_doc(ndoc)
        r["info"]["nontrivial"] = bool(any(k.startswith("tag_") for k in c) or c.get("codedata_docs", 0) > 1)
        return r
    except Exception as e:
        raise Reject("producer cannot dump: %s (C07's business)" % exc_sig(e))


@op("c15_consume")
def op_c15_consume(args):
    L = lib()
    v = Verdict()
    doc = json.loads(args["text"])
    try:
        y = L.CodeData.from_json_data(doc)
    except Exception as e:
        v.violate("consumer_load_raises", exc_sig(e), exc_detail(e))
        return v.result()
    try:
        out = canon_doc(y.to_json_data())
    except Exception as e:
        v.violate("consumer_dump_raises", exc_sig(e), exc_detail(e))
        return v.result()
    if out != args["canon"]:
        v.violate("redump_differs", "document", _text_diff(args["canon"], out))
    try:
        outn = canon_doc(y.normalize().to_json_data())
        if outn != args["canon_normalized"]:
            v.violate("redump_differs", "normalized", _text_diff(args["canon_normalized"], outn))
    except Exception as e:
        v.violate("consumer_normalize_raises", exc_sig(e), exc_detail(e))
    try:
        hash(y)
    except Exception as e:
        v.violate("consumer_hash_raises", exc_sig(e), exc_detail(e))
    v.info["nontrivial"] = bool(args.get("nontrivial"))
    return v.result()


def _text_diff(a, b):
    i = 0
    n = min(len(a), len(b))
    while i < n and a[i] == b[i]:
        i += 1
    return "at %d: ...%s | ...%s" % (i, a[max(0, i - 40):i + 60], b[max(0, i - 40):i + 60])
