# Reference readers (the oracles' trusted base).  Nothing here imports code_data.
# Python 3.7 syntax, standard library only.
import ctypes
import dis
import opcode
import struct
import sys
import types

V = sys.version_info[:2]
AT310 = V >= (3, 10)
JSCALE = 2 if AT310 else 1  # bytes per jump-operand unit
EXTENDED_ARG = opcode.EXTENDED_ARG
HAVE_ARGUMENT = opcode.HAVE_ARGUMENT
HASJABS = frozenset(opcode.hasjabs)
HASJREL = frozenset(opcode.hasjrel)
HASNAME = frozenset(opcode.hasname)
HASLOCAL = frozenset(opcode.haslocal)
HASFREE = frozenset(opcode.hasfree)
HASCONST = frozenset(opcode.hasconst)
CodeType = types.CodeType

CO_OPTIMIZED, CO_NEWLOCALS, CO_VARARGS, CO_VARKEYWORDS = 1, 2, 4, 8
CO_NESTED, CO_GENERATOR, CO_NOFREE, CO_COROUTINE = 16, 32, 64, 128
CO_ITERABLE_COROUTINE, CO_ASYNC_GENERATOR = 256, 512


class HarnessError(Exception):
    pass


# ---------------------------------------------------------------- R-UNITS
def units(co_code):
    """[(first_unit_offset, opcode_offset, opcode, folded_arg)] per instruction."""
    out = []
    ext = 0
    first = None
    b = co_code
    for i in range(0, len(b), 2):
        op = b[i]
        if first is None:
            first = i
        arg = b[i + 1] | ext
        if op == EXTENDED_ARG:
            ext = arg << 8
        else:
            out.append((first, i, op, arg))
            ext = 0
            first = None
    if first is not None:
        # trailing EXTENDED_ARG without instruction: never produced by a compiler
        raise HarnessError("dangling EXTENDED_ARG")
    return out


def check_units_against_dis(code, us):
    """Cross-check R-UNITS with dis (harness self-check)."""
    ins = [i for i in dis.get_instructions(code) if i.opcode != EXTENDED_ARG]
    if len(ins) != len(us):
        raise HarnessError("R-UNITS/dis instruction count %d != %d" % (len(us), len(ins)))
    for (first, off, op, arg), d in zip(us, ins):
        if d.offset != off or d.opcode != op:
            raise HarnessError("R-UNITS/dis disagree at %d" % off)
        if op >= HAVE_ARGUMENT and d.arg != arg and arg < (1 << 31):
            raise HarnessError("R-UNITS/dis arg disagree at %d: %r %r" % (off, arg, d.arg))


def jump_dest(op, arg, opcode_off):
    if op in HASJABS:
        return arg * JSCALE
    if op in HASJREL:
        return opcode_off + 2 + arg * JSCALE
    return None


# ---------------------------------------------------------------- R-LINE
_addr2line = ctypes.pythonapi.PyCode_Addr2Line
_addr2line.argtypes = [ctypes.py_object, ctypes.c_int]
_addr2line.restype = ctypes.c_int


def addr2line(code, offset):
    """Line CPython itself assigns to a byte offset; None for 'no line' (3.10)."""
    r = _addr2line(code, offset)
    if r < 0 and AT310:
        return None
    return r


def lnotab_reader(code):
    """Independent reader written from Objects/lnotab_notes.txt (<=3.9):
    returns {offset: line} for every code unit."""
    tab = code.co_lnotab
    n = len(code.co_code)
    res = {}
    line = code.co_firstlineno
    addr = 0
    entries = []
    for i in range(0, len(tab), 2):
        addr += tab[i]
        d = tab[i + 1]
        if d >= 128:
            d -= 256
        line += d
        entries.append((addr, line))
    # line for offset o = line of the last entry with addr <= o
    cur = code.co_firstlineno
    j = 0
    for o in range(0, n, 2):
        while j < len(entries) and entries[j][0] <= o:
            cur = entries[j][1]
            j += 1
        res[o] = cur
    return res


def colines_reader(code):
    """3.10: {offset: line or None} from co_lines()."""
    res = {}
    for start, end, line in code.co_lines():
        for o in range(start, end, 2):
            res[o] = line
    return res


def line_table_bytes(code):
    return code.co_linetable if AT310 else code.co_lnotab


def line_map(code):
    """{offset: line} by PyCode_Addr2Line, cross-checked by a second reader."""
    n = len(code.co_code)
    res = {}
    for o in range(0, n, 2):
        res[o] = addr2line(code, o)
    other = colines_reader(code) if AT310 else lnotab_reader(code)
    for o in range(0, n, 2):
        if other.get(o, None) != res[o]:
            raise HarnessError("R-LINE readers disagree at %d: %r vs %r" % (o, res[o], other.get(o)))
    return res


# ---------------------------------------------------------------- R-CKEY
_NAN = "NaN"


def _fbits(x, nan_one):
    if x != x and nan_one:
        return _NAN
    return struct.pack(">d", x).hex()


def ckey(v, nan_one=True, code_key=None):
    """Reference constant key: (type name, payload); floats by IEEE bits."""
    t = type(v)
    if v is None:
        return ("None",)
    if v is Ellipsis:
        return ("Ellipsis",)
    if t is bool:
        return ("bool", bool(v))
    if t is int:
        return ("int", str(v))
    if t is float:
        return ("float", _fbits(v, nan_one))
    if t is complex:
        return ("complex", _fbits(v.real, nan_one), _fbits(v.imag, nan_one))
    if t is str:
        return ("str", [ord(c) for c in v] if _has_surrogate(v) else v)
    if t is bytes:
        return ("bytes", v.hex())
    if t is tuple:
        return ("tuple", [ckey(x, nan_one, code_key) for x in v])
    if t is frozenset:
        return ("frozenset", sorted((ckey(x, nan_one, code_key) for x in v), key=repr))
    if t is CodeType:
        if code_key is None:
            return ("code", v.co_name)
        return ("code", code_key(v))
    raise HarnessError("unexpected constant type %r" % (t,))


def hkey(k):
    """hashable version of a ckey"""
    if isinstance(k, (list, tuple)):
        return tuple(hkey(x) for x in k)
    return k


def _has_surrogate(s):
    for c in s:
        if 0xD800 <= ord(c) <= 0xDFFF:
            return True
    return False


try:
    _constkey = ctypes.pythonapi._PyCode_ConstantKey
    _constkey.argtypes = [ctypes.py_object]
    _constkey.restype = ctypes.py_object
except Exception:  # pragma: no cover
    _constkey = None


def cpython_constant_key(v):
    return _constkey(v)


def contains_nan(v):
    if isinstance(v, float):
        return v != v
    if isinstance(v, complex):
        return v.real != v.real or v.imag != v.imag
    if isinstance(v, (tuple, frozenset)):
        return any(contains_nan(x) for x in v)
    return False


# ---------------------------------------------------------------- R-IDENT
CO_ATTRS = sorted(
    n for n in dir(CodeType) if n.startswith("co_") and n not in ("co_lines", "co_consts")
)


def ident_diff(a, b, nan_bits=True, path="", limit=40):
    """Strict identity of two code objects; returns list of (path, field, detail)."""
    out = []
    _ident(a, b, nan_bits, path or a.co_name, out, limit)
    return out


def _ident(a, b, nan_bits, path, out, limit):
    if len(out) >= limit:
        return
    for n in CO_ATTRS:
        x = getattr(a, n)
        y = getattr(b, n)
        if type(x) is not type(y) or x != y:
            out.append((path, n, "%s != %s" % (_short(x), _short(y))))
        elif isinstance(x, tuple):
            # element types (str subclasses etc. cannot occur; check str/bytes)
            for p, q in zip(x, y):
                if type(p) is not type(q):
                    out.append((path, n, "element type"))
                    break
    ca, cb = a.co_consts, b.co_consts
    if type(ca) is not type(cb) or len(ca) != len(cb):
        out.append((path, "co_consts", "len %d != %d" % (len(ca), len(cb))))
        return
    for i, (x, y) in enumerate(zip(ca, cb)):
        xc = isinstance(x, CodeType)
        yc = isinstance(y, CodeType)
        if xc or yc:
            if not (xc and yc):
                out.append((path, "co_consts", "[%d] code vs non-code" % i))
            else:
                _ident(x, y, nan_bits, "%s/%d:%s" % (path, i, x.co_name), out, limit)
        else:
            kx = ckey(x, nan_one=not nan_bits)
            ky = ckey(y, nan_one=not nan_bits)
            if kx != ky:
                out.append((path, "co_consts", "[%d] %s != %s" % (i, _short(x), _short(y))))


def _short(x):
    r = repr(x)
    return r if len(r) <= 160 else r[:150] + "...(%d)" % len(r)


def walk_codes(code, path=None):
    """pre-order walk of all nested code objects: yields (path, code)."""
    path = path or code.co_name
    yield path, code
    for i, k in enumerate(code.co_consts):
        if isinstance(k, CodeType):
            for x in walk_codes(k, "%s/%d:%s" % (path, i, k.co_name)):
                yield x


# ---------------------------------------------------------------- R-SYM
def code_header(code):
    flags = code.co_flags
    npos = getattr(code, "co_posonlyargcount", 0)
    argc = code.co_argcount
    kwc = code.co_kwonlyargcount
    vn = code.co_varnames
    i = 0
    params = []
    for n in vn[:npos]:
        params.append((n, "POSITIONAL_ONLY"))
    for n in vn[npos:argc]:
        params.append((n, "POSITIONAL_OR_KEYWORD"))
    i = argc
    kwonly = vn[i:i + kwc]
    i += kwc
    # CPython layout: positional, kwonly, *args, **kwargs
    if flags & CO_VARARGS:
        params.append((vn[i], "VAR_POSITIONAL"))
        i += 1
    for n in kwonly:
        params.append((n, "KEYWORD_ONLY"))
    if flags & CO_VARKEYWORDS:
        params.append((vn[i], "VAR_KEYWORD"))
        i += 1
    return {"params": params, "nparams": i}


def is_function_like(code):
    return (code.co_flags & (CO_OPTIMIZED | CO_NEWLOCALS)) == (CO_OPTIMIZED | CO_NEWLOCALS)


def sym(code, nan_one=True, with_lines=True, _memo=None):
    """Symbolic reading of a code object (R-SYM)."""
    us = units(code.co_code)
    starts = {u[0]: idx for idx, u in enumerate(us)}
    ncell = len(code.co_cellvars)
    lm = line_map(code) if with_lines else None
    ins = []
    for idx, (first, off, op, arg) in enumerate(us):
        name = opcode.opname[op]
        if op in HASJABS or op in HASJREL:
            d = jump_dest(op, arg, off)
            if d not in starts:
                operand = ("jump?", d)
            else:
                operand = ("jump", starts[d], "rel" if op in HASJREL else "abs")
        elif op in HASNAME:
            operand = ("name", code.co_names[arg])
        elif op in HASLOCAL:
            operand = ("local", code.co_varnames[arg])
        elif op in HASFREE:
            if arg < ncell:
                operand = ("cell", code.co_cellvars[arg])
            else:
                operand = ("free", code.co_freevars[arg - ncell])
        elif op in HASCONST:
            k = code.co_consts[arg]
            if isinstance(k, CodeType):
                operand = ("code", sym(k, nan_one, with_lines))
            else:
                operand = ("const", ckey(k, nan_one))
        elif op < HAVE_ARGUMENT:
            operand = ("noarg",)
        else:
            operand = ("int", arg)
        if with_lines:
            ins.append((name, operand, lm[first], lm[off]))
        else:
            ins.append((name, operand))
    hdr = code_header(code)
    doc = None
    if is_function_like(code) and code.co_consts and type(code.co_consts[0]) is str:
        doc = ckey(code.co_consts[0])
    return {
        "name": code.co_name,
        "filename": code.co_filename,
        "firstlineno": code.co_firstlineno,
        "stacksize": code.co_stacksize,
        "argcount": code.co_argcount,
        "posonly": getattr(code, "co_posonlyargcount", 0),
        "kwonly": code.co_kwonlyargcount,
        "params": hdr["params"],
        "flags": code.co_flags,
        "freevars": list(code.co_freevars),
        "doc": doc,
        "ins": ins,
    }


def sym_diff(a, b, path="", out=None, limit=20, flag_mask=0, opcode_unit_lines=True):
    """Differences between two R-SYM readings (ignoring flags in flag_mask)."""
    if out is None:
        out = []
    path = path or a["name"]
    for k in ("name", "filename", "firstlineno", "stacksize", "argcount", "posonly",
              "kwonly", "params", "freevars", "doc"):
        if a[k] != b[k]:
            out.append((path, k, "%r != %r" % (a[k], b[k])))
    if (a["flags"] ^ b["flags"]) & ~flag_mask:
        out.append((path, "flags", "%#x != %#x" % (a["flags"], b["flags"])))
    if len(a["ins"]) != len(b["ins"]):
        out.append((path, "ninstr", "%d != %d" % (len(a["ins"]), len(b["ins"]))))
        return out
    for i, (x, y) in enumerate(zip(a["ins"], b["ins"])):
        if len(out) >= limit:
            break
        if x[0] != y[0]:
            out.append((path, "opname", "#%d %s != %s" % (i, x[0], y[0])))
            continue
        ox, oy = x[1], y[1]
        if ox[0] == "code" and oy[0] == "code":
            sym_diff(ox[1], oy[1], "%s/%s" % (path, ox[1]["name"]), out, limit, flag_mask, opcode_unit_lines)
        elif ox != oy:
            out.append((path, "operand", "#%d %s %s != %s" % (i, x[0], _short(ox), _short(oy))))
        if len(x) > 2:
            if x[2] != y[2]:
                out.append((path, "line_first_unit", "#%d %s %r != %r" % (i, x[0], x[2], y[2])))
            elif x[3] != y[3] and opcode_unit_lines:
                out.append((path, "line_opcode_unit", "#%d %s %r != %r" % (i, x[0], x[3], y[3])))
    return out


# ---------------------------------------------------------------- features of a code object
def code_features(code, feats):
    """Count the serialization artefacts this code object carries (harness-side,
    from the raw object only)."""
    b = code.co_code
    us = units(b)
    njump = 0
    ext = 0
    extjump = 0
    refs = {"name": set(), "local": set(), "free": set(), "const": set()}
    for first, off, op, arg in us:
        if off != first:
            ext += 1
        if op in HASJABS or op in HASJREL:
            njump += 1
            if off != first:
                extjump += 1
            if op in HASJREL:
                feats["jump_rel"] += 1
            d = jump_dest(op, arg, off)
            if d is not None and d <= first:
                feats["jump_backward"] += 1
        elif op in HASNAME:
            refs["name"].add(arg)
        elif op in HASLOCAL:
            refs["local"].add(arg)
        elif op in HASFREE:
            refs["free"].add(arg)
        elif op in HASCONST:
            refs["const"].add(arg)
        elif op < HAVE_ARGUMENT and b[off + 1] != 0:
            feats["noarg_nonzero"] += 1
        if arg >= 256:
            feats["operand_ge256"] += 1
        if arg >= 65536:
            feats["operand_ge65536"] += 1
    if njump:
        feats["has_jump"] += 1
    if ext:
        feats["has_extended_arg"] += 1
    if extjump:
        feats["extended_arg_on_jump"] += 1
    nested = sum(1 for k in code.co_consts if isinstance(k, CodeType))
    if nested:
        feats["has_nested"] += 1
    if len(refs["name"]) < len(code.co_names):
        feats["unref_name"] += 1
    hdr = code_header(code)
    unref_local = set(range(hdr["nparams"], len(code.co_varnames))) - refs["local"]
    if unref_local:
        feats["unref_local"] += 1
    if set(range(len(code.co_cellvars))) - refs["free"]:
        feats["unref_cell"] += 1
    unref_const = set(range(len(code.co_consts))) - refs["const"]
    if is_function_like(code) and code.co_consts and type(code.co_consts[0]) is str:
        unref_const.discard(0)
    if unref_const:
        feats["unref_const"] += 1
        if any(isinstance(code.co_consts[i], CodeType) for i in unref_const):
            feats["unref_nested_code"] += 1
    if code.co_cellvars and code.co_freevars:
        feats["cell_and_free"] += 1
    # line table shape
    tab = line_table_bytes(code)
    nent = len(tab) // 2
    if nent >= 2:
        feats["line_entries_ge2"] += 1
    addr = 0
    ld = None
    for i in range(0, len(tab), 2):
        prev_ld = ld
        bd = tab[i]
        ld = tab[i + 1]
        ld = ld - 256 if ld >= 128 else ld
        addr += bd
        if AT310:
            if ld == -128:
                feats["noline_entry"] += 1
            elif ld in (127, -127):
                feats["split_line_entry"] += 1
            if bd == 254:
                feats["split_byte_entry"] += 1
            if bd == 0:
                feats["zero_width_entry"] += 1
        else:
            if ld in (127, -128):
                feats["split_line_entry"] += 1
            if bd == 255:
                feats["split_byte_entry"] += 1
            if bd == 0 and i > 0 and prev_ld not in (127, -128):
                feats["zero_width_entry"] += 1
            if ld == 0:
                feats["dline0_entry"] += 1
            if ld < 0:
                feats["negative_line_delta"] += 1
    if not AT310 and addr >= len(b) and nent:
        feats["trailing_line_entry"] += 1
    return {"njump": njump, "nested": nested, "nent": nent, "ninstr": len(us)}
