# Constant-heavy programs and hand-altered code objects for C07 / C15 / C12.
from hypothesis import strategies as st

import gen_const
import gen_source

SURR = ["\ud800", "a\udc80", "\udfff\ud800", "doc\ud800", "\udcffx.py", "ok", "", "é", "\U0001f600", "\ud83d\ude00", "p\ud800\udc00"]


@st.composite
def const_programs(draw):
    lines = []
    n = draw(st.integers(1, 6))
    fn_lines = []
    # near-miss groups (value, variant, variant): constants that are == but not the same
    # constant must stay distinct when they meet in one document / one process
    group = draw(gen_const.const_groups(3)) if draw(st.integers(0, 2)) == 0 else None
    for i in range(n):
        spec = group[i] if (group is not None and i < len(group)) else draw(gen_const.const_specs(max_leaves=6))
        lit = gen_const.literal(spec)
        fs = gen_const.fset_items_literal(spec)
        pos = draw(st.integers(0, 6))
        if fs is not None:
            stmt = "r%d = x in %s" % (i, fs)
        elif lit is None:
            continue
        else:
            stmt = "r%d = %s" % (i, lit)
        if pos <= 2:
            lines.append(stmt)
        elif pos == 3:
            lines += ["if 0:", "    " + stmt]
        elif pos == 4:
            fn_lines.append(stmt)
        elif pos == 5:
            fn_lines += ["return", stmt]
        else:
            lines.append("r%d = [%s for i in x]" % (i, lit if fs is None else "i in " + fs))
    doc = draw(st.sampled_from([None, "'doc'", "'\\ud800'", "'a\\udc80b'", "''"]))
    if fn_lines or doc:
        body = ([doc] if doc else []) + (fn_lines or ["pass"])
        lines += ["def fn(a, *b, c=1, **d):"] + ["    " + l for l in body]
    if not lines:
        lines = ["x = 1"]
    fn = draw(st.sampled_from(["<verif>", "<verif>", "\udcffx.py", "dir/m\u00e9.py"]))
    case = {"src": "\n".join(lines) + "\n", "mode": "exec", "optimize": draw(st.sampled_from([0, 0, 2])),
            "min_version": 7, "_label": "const_programs"}
    if fn != "<verif>":
        case["filename"] = fn
    return case


@st.composite
def alterations(draw):
    if draw(st.integers(0, 5)) == 0:
        return {"alter": {"kind": "additional_group", "value": ["tuple", draw(gen_const.const_groups(3))]}, "min_version": 7,
                "_label": "altered_code"}
    kind = draw(st.sampled_from(["operand", "operand", "operand", "additional", "additional_fn", "docstring", "names",
                                 "varnames", "argname", "co_name", "filename", "global_name", "freevar_name", "kwonly_name"]))
    if kind in ("operand", "additional", "additional_fn"):
        val = draw(gen_const.const_specs(max_leaves=8))
    else:
        val = draw(st.one_of(st.sampled_from(SURR), st.text(st.characters(min_codepoint=1, max_codepoint=0x10FFFF), max_size=4)))
    return {"alter": {"kind": kind, "value": val}, "min_version": 7, "_label": "altered_code"}


def json_cases(max_size=20):
    general = gen_source.programs(max_size=max_size, mix=(80, 5, 15))

    @st.composite
    def pick(draw):
        k = draw(st.integers(0, 9))
        if k <= 3:
            case = draw(const_programs())
        elif k <= 6:
            case = draw(alterations())
        else:
            case = draw(general)
        case = dict(case)
        case["normalize"] = draw(st.integers(0, 2)) == 0
        return case
    return pick()


FIXED_SOURCES = [
    "def f():\n '\\ud800'\n", "x = '\\ud800'\n", "x = 2**53\ny = 2**53-1\nz = -2**53\nw = 2**53+1\nv = 2**1000\n",
    "x = 1e999\ny = -1e999\nz = 1e999-1e999\n", "x = ...\ny = b'bytes'\nz = 1j\nw = (1, (2.5, b'x', None, ...), 'ĳ')\n",
    "x = y in {1, 'a', b'a', 2.5, None, (1, 2), ...}\n", "x = -0.0\ny = (0.0, -0.0)\nz = -0.0j\n",
    "def f(a, /, b, *, c): pass\n", "def f(*a, k, **kw):\n return\n x = 'dead'\n", "if 0:\n x = b'dead'\n def g(): pass\n",
    "class A:\n 'doc'\n def m(self): return super().m()\n", "from __future__ import annotations\ndef f(a: int): pass\n",
    "x = 1.5\ny = 0.1\nz = 1e308\nw = 5e-324\n", "async def f():\n async for i in x:\n  yield i\n",
]


def fixed_cases(big=False):
    out = []
    for s in FIXED_SOURCES:
        mv = 8 if "/" in s and "def f(a, /" in s else 7
        for norm in (False, True):
            out.append({"src": s, "mode": "exec", "optimize": 0, "min_version": mv, "normalize": norm, "_label": "json_examples"})
    out.append({"src": "x = 1\n", "filename": "\udcffx.py", "mode": "exec", "optimize": 0, "min_version": 7, "normalize": False, "_label": "json_examples"})
    for kind in ["operand", "additional", "additional_fn"]:
        for val in [["float", "7ff8000000000001"], ["fset", [["fset", [["float", "fff8000000000000"]]], ["int", "1"]]],
                    ["fset", [["float", "7ff8000000000000"], ["float", "fff8000000000000"], ["float", "3ff8000000000000"]]],
                    ["tuple", [["fset", [["float", "7ff8000000000001"], ["float", "7ff8000000000000"]]], ["ell"], ["tuple", [["ell"]]]]],
                    ["complex", "8000000000000000", "7ff0000000000000"], ["str", "\ud800"], ["tuple", [["str", "\udc80"], ["bytes", "ff"]]],
                    ["int", str(2 ** 53)], ["int", str(-(2 ** 53))], ["int", str(2 ** 53 + 1)], ["float", "0010000000000000"]]:
            out.append({"alter": {"kind": kind, "value": val}, "min_version": 7, "normalize": False, "_label": "altered_code"})
    for fam in gen_const._EQ_FAMILIES:
        out.append({"alter": {"kind": "additional_group", "value": ["tuple", fam[:4]]}, "min_version": 7, "normalize": False, "_label": "altered_code"})
        out.append({"alter": {"kind": "additional_group", "value": ["tuple", [["tuple", [f, ["float", gen_const.f2h(1.0)]]] for f in fam[:4]]]},
                    "min_version": 7, "normalize": False, "_label": "altered_code"})
    for kind in ["docstring", "names", "varnames", "argname", "co_name", "filename", "global_name", "freevar_name", "kwonly_name"]:
        for val in ["\ud800", "a\udc80"]:
            for norm in (False, True):
                out.append({"alter": {"kind": kind, "value": val}, "min_version": 7, "normalize": norm, "_label": "altered_code"})
    for c in gen_source.example_cases():
        if c.get("_label") == "repo_minimized" and not big:
            continue  # large files: schema validation of their documents dominates the quick tier
        if c.get("optimize"):
            continue
        out.append(dict(c, normalize=False))
    return out
