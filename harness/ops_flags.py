# C11 ops: flag words and header alterations.  py3.7, stdlib only.
import __future__
import dis
import sys
import types

import refs
from ops import Reject, Verdict, exc_detail, exc_sig, lib, op
from ops_const import code_replace

V = sys.version_info[:2]
CodeType = types.CodeType


def known_bits():
    """{bit: set(names)} from dis.COMPILER_FLAG_NAMES and __future__ (harness-side)"""
    bits = {}
    for bit, name in dis.COMPILER_FLAG_NAMES.items():
        bits.setdefault(bit, set()).add(name)
    for name in __future__.all_feature_names:
        f = getattr(__future__, name).compiler_flag
        if f and name not in ("nested_scopes", "generators"):
            bits.setdefault(f, set()).add(name)
    return bits


@op("c11_known_bits")
def op_known_bits(args):
    kb = known_bits()
    return {"status": "ok", "bits": sorted(kb), "names": {str(b): sorted(n) for b, n in kb.items()}}


@op("c11_flags")
def op_c11_flags(args):
    from code_data._flags_data import from_flags_data, to_flags_data
    v = Verdict()
    kb = known_bits()
    mask = 0
    for b in kb:
        mask |= b
    n_nontrivial = 0
    primed = 0
    for f in args["words"]:
        unknown = f & ~mask
        try:
            names = to_flags_data(f)
            raised = None
        except Exception as e:
            names = None
            raised = e
        if unknown:
            v.features["word_with_unknown_bit"] += 1
            if raised is None:
                v.violate("unknown_bit_dropped", "to_flags_data", "to_flags_data(%#x) returned %r instead of raising (unknown bits %#x)" % (f, sorted(names), unknown))
            elif primed < 6:
                # history: from_flags_data returns an int a caller may do arithmetic on (it is an IntFlag member in
                # fact); or-ing the unknown bit into a RETURNED value must not teach the converter that bit
                primed += 1
                try:
                    _w = from_flags_data(set()) | unknown
                    _w = from_flags_data(to_flags_data(f & mask)) | unknown
                    _w = from_flags_data(to_flags_data(f & mask)) ^ f
                except Exception:
                    pass
                v.features["unknown_word_retried_after_arithmetic"] += 1
                try:
                    names2 = to_flags_data(f)
                except Exception:
                    names2 = None
                if names2 is not None:
                    v.violate("unknown_bit_dropped", "to_flags_data_after_arithmetic",
                              "to_flags_data(%#x) raised at first, but after `from_flags_data(...) | %#x` on a returned value it returns %r" % (f, unknown, sorted(names2)))
            continue
        v.features["word_known_only"] += 1
        if raised is not None:
            v.violate("known_word_raises", exc_sig(raised), "to_flags_data(%#x): %s" % (f, exc_detail(raised)))
            continue
        if not isinstance(names, (set, frozenset)):
            v.violate("flags_data_type", type(names).__name__, "%#x" % f)
            continue
        setbits = [b for b in kb if f & b]
        ok = len(names) == len(setbits) and all(any(n in kb[b] for n in names) for b in setbits) \
            and all(any(n in kb[b] for b in setbits) for n in names)
        if not ok:
            v.violate("names_wrong", "to_flags_data", "to_flags_data(%#x) = %r, bits set are %r" % (f, sorted(names), [sorted(kb[b]) for b in setbits]))
            continue
        try:
            back = from_flags_data(set(names))
        except Exception as e:
            v.violate("from_flags_raises", exc_sig(e), "%#x: %s" % (f, exc_detail(e)))
            continue
        if back != f or type(back) is not int and not isinstance(back, int):
            v.violate("flags_roundtrip", "from_flags_data", "%#x -> %r -> %#x" % (f, sorted(names), back))
        if len(setbits) >= 2:
            n_nontrivial += 1
    v.info["nontrivial"] = n_nontrivial > 0 or v.features.get("word_with_unknown_bit", 0) > 0
    v.info["n_nontrivial_words"] = n_nontrivial
    v.features["words"] += len(args["words"])
    return v.result()


def _swap_nested(code, old, new):
    consts = tuple(new if k is old else (_swap_nested(k, old, new) if isinstance(k, CodeType) else k) for k in code.co_consts)
    return code_replace(code, co_consts=consts)


def _header_via_parent(L, v, c, c2, kw):
    top = _swap_nested(base_codes()[0], c, c2)
    v.features["via_parent"] += 1
    try:
        cd = L.CodeData.from_code(top)
    except Exception as e:
        v.features["from_code_raised"] += 1
        return v.result()
    try:
        r = cd.to_code()
    except Exception as e:
        v.features["to_code_raised_after_from_code"] += 1
        return v.result()
    v.features["header_reproduced_checked"] += 1
    for (p, a), (_q, b) in zip(refs.walk_codes(top), refs.walk_codes(r)):
        for fld in HEADER_FIELDS:
            if hasattr(a, fld) and (getattr(a, fld) != getattr(b, fld)):
                v.violate("silently_lossy", fld + ":nested", "%s (nested in its module) altered by %r: from_code succeeded but to_code() has %s=%r instead of %r in %s"
                          % (c.co_name, kw, fld, getattr(b, fld), getattr(a, fld), p))
                return v.result()
    return v.result()


BASE = '''
def f(a, b=1, *args, c, **kw):
    "doc"
    return a
def g(x):
    def h():
        return x
    return h
def gen():
    yield 1
async def co():
    await x
async def ag():
    yield 1
class C:
    def m(self):
        return __class__
l = [i for i in y]
lam = lambda q, *r: q
def plain(p, q):
    return p
def staronly(*a, **k):
    return a
lam2 = lambda *a: a
lam3 = lambda **k: k
'''
BASE38 = BASE + "def po(a, b, /, c, *, d):\n    return a\n"
_base = None


def base_codes():
    global _base
    if _base is None:
        top = compile(BASE38 if V >= (3, 8) else BASE, "<hdr>", "exec")
        _base = [c for _p, c in refs.walk_codes(top)]
    return _base


HEADER_FIELDS = ["co_flags", "co_argcount", "co_posonlyargcount", "co_kwonlyargcount", "co_nlocals", "co_stacksize", "co_name",
                 "co_filename", "co_firstlineno", "co_names", "co_varnames", "co_freevars", "co_cellvars"]


@op("c11_header")
def op_c11_header(args):
    L = lib()
    v = Verdict()
    codes = base_codes()
    c = codes[args["target"] % len(codes)]
    kw = {}
    flags = c.co_flags
    flags ^= args.get("flags_xor", 0)
    flags |= args.get("flags_or", 0)
    if flags != c.co_flags:
        kw["co_flags"] = flags
    if args.get("filename"):
        kw["co_filename"] = args["filename"]
    if args.get("name"):
        kw["co_name"] = args["name"]
    for k, field in (("argcount_d", "co_argcount"), ("posonly_d", "co_posonlyargcount"), ("kwonly_d", "co_kwonlyargcount"),
                     ("nlocals_d", "co_nlocals"), ("stacksize_d", "co_stacksize"), ("firstlineno_d", "co_firstlineno")):
        d = args.get(k, 0)
        if d and hasattr(c, field):
            kw[field] = getattr(c, field) + d
    if not kw:
        raise Reject("no alteration")
    try:
        c2 = code_replace(c, **kw)
    except (ValueError, TypeError, OverflowError, SystemError) as e:
        raise Reject("constructor refused: %s" % type(e).__name__)
    v.features["alteration_accepted"] += 1
    for k in kw:
        v.features["altered_" + k] += 1
    v.info["nontrivial"] = True
    if args.get("via_parent") and c is not codes[0]:
        # decode the altered code object as a NESTED constant of its enclosing module
        return _header_via_parent(L, v, c, c2, kw)
    try:
        cd = L.CodeData.from_code(c2)
    except Exception as e:
        v.features["from_code_raised"] += 1
        v.features["from_code_raised:" + type(e).__name__] += 1
        return v.result()
    try:
        r = cd.to_code()
    except Exception as e:
        v.features["to_code_raised_after_from_code"] += 1
        return v.result()
    v.features["header_reproduced_checked"] += 1
    for fld in HEADER_FIELDS:
        if not hasattr(c2, fld):
            continue
        a, b = getattr(c2, fld), getattr(r, fld)
        if a != b or type(a) is not type(b):
            v.violate("silently_lossy", fld, "%s altered by %r: from_code succeeded but to_code() has %s=%r instead of %r"
                      % (c.co_name, kw, fld, b, a))
    return v.result()
