# Sharding, root-cause buckets, shrinking policy, replay, evidence, exit codes.
# Runs under /venv/bin/python (3.12) with Hypothesis.
import collections
import hashlib
import importlib
import json
import os
import shutil
import subprocess
import sys
import time
import traceback

HERE = os.path.dirname(os.path.abspath(__file__))
ROOT = os.path.dirname(HERE)
if HERE not in sys.path:
    sys.path.insert(0, HERE)
if ROOT not in sys.path:
    sys.path.insert(0, ROOT)
DEPS = os.path.join(ROOT, ".deps")
if os.path.isdir(DEPS) and DEPS not in sys.path:
    sys.path.append(DEPS)

import pool as poolmod  # noqa: E402
import findings  # noqa: E402

EVIDENCE_DIR = os.path.join(ROOT, "evidence")
REPLAY_DIR = os.path.join(ROOT, "replays")
REGRESS_DIR = os.path.join(REPLAY_DIR, "regress")
SCRATCH = os.path.join(ROOT, ".scratch")


COLLECT = bool(os.environ.get("VERIF_COLLECT"))


class StopSearch(KeyboardInterrupt):
    """Leaves Hypothesis without being recorded as a test failure."""


class CaseFailed(AssertionError):
    pass


def canon(case):
    return json.dumps(case, sort_keys=True, ensure_ascii=True)


def case_hash(case):
    return hashlib.sha1(canon(case).encode("ascii")).hexdigest()[:16]


def load_check(pid):
    return importlib.import_module("checks.%s" % pid.lower())


# ---------------------------------------------------------------------- shard context
class Ctx(object):
    def __init__(self, check, tier, seed, shard, nshards, budget_s):
        self.check = check
        self.pid = check.ID
        self.tier = tier
        self.seed = seed
        self.shard = shard
        self.nshards = nshards
        self.t0 = time.monotonic()
        self.budget_s = budget_s
        self.pool = poolmod.Pool(getattr(check, "VERSIONS", poolmod.TARGETS),
                                 budget=getattr(check, "RPC_BUDGET", 60.0))
        self.known = findings.load(self.pid)
        self.evaluations = 0
        self.cases = 0
        self.rejected = 0
        self.inconclusive = 0
        self.crashes = 0
        self.excluded_known = collections.Counter()
        self.nontrivial = set()
        self.features = collections.Counter()
        self.per_version = collections.Counter()
        self.gen_mix = collections.Counter()
        self.samples = []          # (size, case, info)
        self.target = None         # (kind, sub) being shrunk
        self.best = None           # smallest failing record for target
        self.first_fail_t = None
        self.other_sigs = {}
        self.stopped_by_budget = False
        self.shrink_cap = 60.0 if tier == "quick" else 240.0
        self.extra = {}
        self.collected = {}

    # -- evaluation of one generated case ------------------------------------
    def evaluate(self, case, label=None, in_hypothesis=True):
        now = time.monotonic()
        if in_hypothesis:
            if self.target is not None and now - self.first_fail_t > self.shrink_cap:
                raise StopSearch()
            if self.target is None and now - self.t0 > self.budget_s:
                self.stopped_by_budget = True
                raise StopSearch()
        check = self.check
        versions = [v for v in check.versions_for(case) if v in self.pool.workers]
        if hasattr(check, "run_case"):
            res = check.run_case(self, case, versions)
        else:
            res = self.pool.call(check.OP, check.op_args(case), versions)
        return self.account(case, res, label, in_hypothesis)

    def account(self, case, res, label=None, in_hypothesis=True):
        self.cases += 1
        if label:
            self.gen_mix[label] += 1
        h = None
        fail = None
        for v, r in res.items():
            st = r.get("status")
            if st == "reject":
                self.rejected += 1
                self.per_version[v + ":rejected"] += 1
                continue
            if st == "inconclusive":
                self.inconclusive += 1
                continue
            if st == "crash":
                self.crashes += 1
                r = dict(r)
                r["violations"] = [{"kind": "interpreter_crash", "sub": "worker_died_twice", "detail": ""}]
                if not getattr(self.check, "CRASH_IS_VIOLATION", False):
                    self.inconclusive += 1
                    continue
            self.evaluations += 1
            self.per_version[v] += 1
            for k, n in (r.get("features") or {}).items():
                self.features[k] += n
            info = r.get("info") or {}
            if info.get("nontrivial"):
                if h is None:
                    h = case_hash(case)
                self.nontrivial.add(h + v)
                self._sample(case, info, v)
            for viol in r.get("violations") or []:
                kf = findings.match(self.known, self.pid, case, v, viol)
                if kf is not None:
                    self.excluded_known[kf] += 1
                    continue
                sig = (viol["kind"], viol["sub"])
                if COLLECT:
                    # triage aid (VERIF_COLLECT=1): never stop, keep the smallest sample per signature
                    key = "%s/%s" % sig
                    size = len(canon(case))
                    cur = self.collected.get(key)
                    if cur is None or size < cur["size"]:
                        self.collected[key] = {"size": size, "version": v, "case": case, "detail": viol.get("detail", "")[:600],
                                               "count": (cur or {}).get("count", 0) + 1}
                    else:
                        cur["count"] += 1
                    continue
                rec = {"property": self.pid, "op": getattr(self.check, "OP", None), "version": v, "case": case,
                       "violation": viol, "signature": list(sig)}
                if self.target is None:
                    self.target = sig
                    self.first_fail_t = time.monotonic()
                    self.best = rec
                    self._write_replay(rec)
                if sig == self.target:
                    if fail is None:
                        fail = rec
                else:
                    key = "%s/%s" % sig
                    if key not in self.other_sigs:
                        self.other_sigs[key] = {"version": v, "detail": viol.get("detail", "")[:300],
                                                "case_hash": case_hash(case)}
                        # keep an unshrunk sample so it can be replayed
                        self._write_replay(rec, suffix="other")
        if fail is not None:
            if self.best is None or len(canon(fail["case"])) <= len(canon(self.best["case"])):
                self.best = fail
                self._write_replay(fail)
            if in_hypothesis:
                raise CaseFailed("%s/%s on %s: %s" % (fail["signature"][0], fail["signature"][1],
                                                     fail["version"], fail["violation"].get("detail", "")[:300]))
        return fail

    def _sample(self, case, info, v):
        size = len(canon(case))
        if len(self.samples) >= 6 and size >= self.samples[-1][0]:
            return
        for s in self.samples:
            if s[1] == case:
                return
        self.samples.append((size, case, {"version": v}))
        self.samples.sort(key=lambda s: s[0])
        del self.samples[6:]

    def _write_replay(self, rec, suffix=None):
        os.makedirs(REPLAY_DIR, exist_ok=True)
        sig = "%s-%s" % (rec["signature"][0], rec["signature"][1])
        sig = "".join(ch if ch.isalnum() or ch in "-_" else "_" for ch in sig)[:60]
        name = "%s-%s%s.json" % (self.pid, sig, "-" + suffix if suffix else "")
        path = os.path.join(REPLAY_DIR, name)
        rec = dict(rec)
        rec["path"] = path
        tmp = path + ".tmp%d" % os.getpid()
        with open(tmp, "w") as f:
            json.dump(rec, f, indent=1, sort_keys=True)
        os.replace(tmp, path)
        rec_path = path
        if suffix is None:
            self.best_path = rec_path
        return rec_path

    def summary(self):
        return {
            "shard": self.shard,
            "evaluations": self.evaluations,
            "cases": self.cases,
            "rejected": self.rejected,
            "inconclusive": self.inconclusive,
            "crashes": self.crashes,
            "excluded_known": dict(self.excluded_known),
            "nontrivial": sorted(self.nontrivial),
            "features": dict(self.features),
            "per_version": dict(self.per_version),
            "gen_mix": dict(self.gen_mix),
            "samples": [[s[0], s[1], s[2]] for s in self.samples],
            "violation": self.best,
            "violation_path": getattr(self, "best_path", None) if self.best else None,
            "other_sigs": self.other_sigs,
            "stopped_by_budget": self.stopped_by_budget,
            "pool_stats": self.pool.stats,
            "missing_interpreters": self.pool.missing,
            "interpreters": dict(self.pool.started),
            "extra": self.extra,
            "collected": self.collected,
            "wall_s": time.monotonic() - self.t0,
        }


# ---------------------------------------------------------------------- line-based ddmin
def _src_slot(case):
    """(container dict, key) holding the source text of a case, or None"""
    if isinstance(case, dict):
        if isinstance(case.get("src"), str):
            return case, "src"
        for k in ("case", "prog"):
            if isinstance(case.get(k), dict) and isinstance(case[k].get("src"), str):
                return case[k], "src"
    return None


def _corpus_to_src(ctx, case, version):
    """turn a corpus case into an explicit-source case so that it can be minimized"""
    import copy
    c = copy.deepcopy(case)
    holder = c if "corpus" in c else (c.get("case") if isinstance(c.get("case"), dict) and "corpus" in c["case"] else None)
    if holder is None:
        return None
    try:
        r = ctx.pool.call_one(version, "source", {"case": {k: v for k, v in holder.items() if k in ("corpus", "window")}, "limit": 400000})
    except Exception:
        return None
    if r.get("status") != "ok" or len(r.get("src", "")) >= 400000:
        return None
    holder.pop("corpus", None)
    holder.pop("window", None)
    holder["src"] = r["src"]
    holder.setdefault("mode", "exec")
    return c


def minimize(ctx, budget_s=90.0):
    """fallback shrinker for failures Hypothesis did not shrink (fixed / corpus cases) or left
    large: delete line chunks (ddmin) while the same signature keeps failing on the same interpreter"""
    import copy
    if ctx.best is None or COLLECT:
        return
    rec = ctx.best
    version = rec["version"]
    sig = tuple(rec["signature"])
    check = ctx.check
    if hasattr(check, "replay") and "steps" in rec["case"]:
        return
    case = rec["case"]
    if _src_slot(case) is None:
        conv = _corpus_to_src(ctx, case, version)
        if conv is None:
            return
        case = conv
    t_end = time.monotonic() + budget_s

    def fails(c):
        try:
            if hasattr(check, "run_case"):
                res = check.run_case(ctx, c, [version])
            else:
                res = ctx.pool.call(check.OP, check.op_args(c), [version])
        except Exception:
            return False
        r = (res or {}).get(version) or {}
        for viol in r.get("violations") or []:
            if (viol["kind"], viol["sub"]) == sig and findings.match(ctx.known, ctx.pid, c, version, viol) is None:
                return viol
        return False

    first = fails(case)
    if not first:
        return
    holder, key = _src_slot(case)
    lines = holder[key].split("\n")
    if len(lines) < 2:
        return
    n = 2
    best_viol = first
    while len(lines) >= 2 and time.monotonic() < t_end:
        chunk = max(1, len(lines) // n)
        reduced = False
        i = 0
        while i < len(lines) and time.monotonic() < t_end:
            cand = lines[:i] + lines[i + chunk:]
            if cand:
                trial = copy.deepcopy(case)
                h2, k2 = _src_slot(trial)
                h2[k2] = "\n".join(cand)
                viol = fails(trial)
                if viol:
                    lines = cand
                    best_viol = viol
                    reduced = True
                    continue
            i += chunk
        if reduced:
            n = max(2, n - 1)
        elif chunk == 1:
            break
        else:
            n = min(len(lines), n * 2)
    final = copy.deepcopy(case)
    h2, k2 = _src_slot(final)
    h2[k2] = "\n".join(lines)
    if len(canon(final)) < len(canon(rec["case"])) or "corpus" in canon(rec["case"]):
        new = dict(rec)
        new["case"] = final
        new["violation"] = best_viol
        new["minimized_by"] = "line ddmin"
        ctx.best = new
        ctx._write_replay(new)


def default_hypothesis_run(ctx):
    """@given(check.strategy) -> ctx.evaluate"""
    import hypothesis
    from hypothesis import HealthCheck, Phase, given, settings
    check = ctx.check
    n = check.examples(ctx.tier)
    per_shard = max(1, n // ctx.nshards)
    strat = check.strategy(ctx.tier)

    @hypothesis.seed(ctx.seed * 1000 + ctx.shard)
    @settings(max_examples=per_shard, deadline=None, database=None, derandomize=False,
              report_multiple_bugs=False, phases=[Phase.generate, Phase.shrink],
              suppress_health_check=[HealthCheck.too_slow, HealthCheck.data_too_large,
                                     HealthCheck.large_base_example],
              verbosity=hypothesis.Verbosity.quiet)
    @given(strat)
    def test(case):
        label = None
        if isinstance(case, dict) and "_label" in case:
            case = dict(case)
            label = case.pop("_label")
        ctx.evaluate(case, label)

    run_hypothesis_test(ctx, test)


def run_hypothesis_test(ctx, test):
    import hypothesis.errors as herr
    try:
        test()
    except StopSearch:
        pass
    except CaseFailed:
        pass
    except herr.FailedHealthCheck:
        raise
    except (herr.Flaky, herr.FlakyFailure) if hasattr(herr, "FlakyFailure") else herr.Flaky:
        if ctx.best is None:
            raise
    except BaseException:
        if ctx.best is None:
            raise


def shard_main(pid, tier, seed, shard, nshards, out_path):
    check = load_check(pid)
    budget = check.wall_budget(tier) if hasattr(check, "wall_budget") else (75.0 if tier == "quick" else 1200.0)
    ctx = Ctx(check, tier, seed, shard, nshards, budget)
    status = "ok"
    err = None
    try:
        # 1. replay tier (committed regressions) -- shard 0
        if shard == 0:
            for path in sorted(os.listdir(REGRESS_DIR)) if os.path.isdir(REGRESS_DIR) else []:
                if path.startswith(pid + "-") and path.endswith(".json"):
                    with open(os.path.join(REGRESS_DIR, path)) as f:
                        rec = json.load(f)
                    run_replay_record(ctx, rec, label="regress")
        # 2. fixed cases (seed corpus / enumerations), dealt round-robin
        if ctx.target is None and hasattr(check, "fixed_cases"):
            for k, case in enumerate(check.fixed_cases(tier)):
                if k % nshards != shard:
                    continue
                label = None
                if isinstance(case, dict) and "_label" in case:
                    case = dict(case)
                    label = case.pop("_label")
                ctx.evaluate(case, label or "fixed", in_hypothesis=False)
                if ctx.target is not None:
                    break
        # 3. generated cases
        if ctx.target is None:
            if hasattr(check, "hypothesis_run"):
                check.hypothesis_run(ctx)
            else:
                default_hypothesis_run(ctx)
        if ctx.best is not None:
            try:
                minimize(ctx)
            except Exception:
                pass
    except poolmod.HarnessError as e:
        status = "harness_error"
        err = str(e)[-3000:]
    except Exception:
        status = "harness_error"
        err = traceback.format_exc()[-3000:]
    finally:
        try:
            ctx.pool.close()
        except Exception:
            pass
    s = ctx.summary()
    s["status"] = status
    s["error"] = err
    with open(out_path, "w") as f:
        json.dump(s, f)
    return 0 if status == "ok" else 2


def run_replay_record(ctx, rec, label="replay"):
    check = ctx.check
    if hasattr(check, "replay"):
        return check.replay(ctx, rec)
    case = rec["case"]
    versions = [rec["version"]] if rec.get("version") else check.versions_for(case)
    versions = [v for v in versions if v in ctx.pool.workers]
    if hasattr(check, "run_case"):
        res = check.run_case(ctx, case, versions)
    else:
        res = ctx.pool.call(check.OP, check.op_args(case), versions)
    return ctx.account(case, res, label, in_hypothesis=False)


# ---------------------------------------------------------------------- parent
def ensure_deps(mods):
    """install pure offline wheels into /verif/.deps when an import is missing"""
    missing = []
    for m in mods:
        try:
            importlib.import_module(m)
        except ImportError:
            missing.append(m)
    if not missing:
        return
    os.makedirs(DEPS, exist_ok=True)
    cmd = [sys.executable, "-m", "pip", "install", "--quiet", "--no-index", "--find-links",
           "/opt/veriftools/wheels", "--target", DEPS] + missing
    subprocess.run(cmd, stdout=subprocess.DEVNULL, stderr=subprocess.DEVNULL)
    if DEPS not in sys.path:
        sys.path.append(DEPS)
    importlib.invalidate_caches()


def parent_main(pid, tier, seed):
    t0 = time.monotonic()
    check = load_check(pid)
    if hasattr(check, "NEEDS"):
        ensure_deps(check.NEEDS)
    nshards = min(16, os.cpu_count() or 1)
    if hasattr(check, "shards"):
        nshards = check.shards(tier, nshards)
    run_dir = os.path.join(SCRATCH, "%s-%s-%d" % (pid, tier, os.getpid()))
    os.makedirs(run_dir, exist_ok=True)
    os.makedirs(EVIDENCE_DIR, exist_ok=True)
    procs = []
    env = dict(os.environ)
    env["PYTHONHASHSEED"] = "0"
    env["VERIF_SEED"] = str(seed)
    env["VERIF_SCRATCH_DIR"] = run_dir
    for i in range(nshards):
        out = os.path.join(run_dir, "shard_%d.json" % i)
        cmd = [sys.executable, os.path.join(ROOT, "run_check.py"), pid, "--tier", tier,
               "--shard", str(i), "--nshards", str(nshards), "--out", out]
        log = open(os.path.join(run_dir, "shard_%d.log" % i), "w")
        procs.append((i, out, subprocess.Popen(cmd, env=env, stdout=log, stderr=subprocess.STDOUT, cwd=ROOT, start_new_session=True), log))
    hard = (check.wall_budget(tier) if hasattr(check, "wall_budget") else (75.0 if tier == "quick" else 1200.0)) * 3 + 600
    shards = []
    errors = []
    for i, out, p, log in procs:
        try:
            p.wait(max(5.0, hard - (time.monotonic() - t0)))
        except subprocess.TimeoutExpired:
            try:
                os.killpg(p.pid, 9)  # the shard and its workers
            except Exception:
                p.kill()
            errors.append("shard %d exceeded the hard wall limit" % i)
        log.close()
        if os.path.exists(out):
            with open(out) as f:
                shards.append(json.load(f))
        else:
            with open(os.path.join(run_dir, "shard_%d.log" % i)) as f:
                errors.append("shard %d produced no result: %s" % (i, f.read()[-1500:]))
    code = finish(check, pid, tier, seed, shards, errors, time.monotonic() - t0)
    shutil.rmtree(run_dir, ignore_errors=True)
    try:
        os.rmdir(SCRATCH)
    except OSError:
        pass
    return code


def finish(check, pid, tier, seed, shards, errors, wall):
    agg = collections.Counter()
    feats = collections.Counter()
    perv = collections.Counter()
    mix = collections.Counter()
    known = collections.Counter()
    nontrivial = set()
    samples = []
    violations = []
    others = {}
    extra = {}
    stopped = 0
    interp = {}
    missing = set()
    for s in shards:
        if s.get("status") != "ok":
            errors.append("shard %s: %s" % (s.get("shard"), s.get("error")))
        for k in ("evaluations", "cases", "rejected", "inconclusive", "crashes"):
            agg[k] += s.get(k, 0)
        feats.update(s.get("features") or {})
        perv.update(s.get("per_version") or {})
        mix.update(s.get("gen_mix") or {})
        known.update(s.get("excluded_known") or {})
        nontrivial.update(s.get("nontrivial") or [])
        samples.extend(s.get("samples") or [])
        if s.get("violation"):
            violations.append((s["violation"], s.get("violation_path")))
        for k, val in (s.get("other_sigs") or {}).items():
            others.setdefault(k, val)
        stopped += 1 if s.get("stopped_by_budget") else 0
        interp.update(s.get("interpreters") or {})
        missing.update(s.get("missing_interpreters") or [])
        for k, val in (s.get("extra") or {}).items():
            if isinstance(val, (int, float)):
                extra[k] = extra.get(k, 0) + val
            elif isinstance(val, dict):
                d = extra.setdefault(k, {})
                for kk, vv in val.items():
                    d[kk] = d.get(kk, 0) + vv if isinstance(vv, (int, float)) else vv
            else:
                extra[k] = val
    if COLLECT:
        coll = {}
        for s in shards:
            for k, c in (s.get("collected") or {}).items():
                if k not in coll or c["size"] < coll[k]["size"]:
                    c["count"] = c.get("count", 0) + (coll[k]["count"] if k in coll else 0)
                    coll[k] = c
                else:
                    coll[k]["count"] += c.get("count", 0)
        os.makedirs(REPLAY_DIR, exist_ok=True)
        with open(os.path.join(REPLAY_DIR, "%s-collected.json" % pid), "w") as f:
            json.dump(coll, f, indent=1, sort_keys=True)
        for k, c in sorted(coll.items()):
            print("COLLECTED %s x%d on %s: %s" % (k, c["count"], c["version"], c["detail"][:500]))
    samples.sort(key=lambda x: x[0])
    seen = set()
    outs = []
    for size, case, info in samples:
        c = canon(case)
        if c in seen:
            continue
        seen.add(c)
        outs.append(_trim_sample(case, info))
        if len(outs) >= 6:
            break
    # distinct violations by signature
    by_sig = {}
    for rec, path in violations:
        key = tuple(rec["signature"])
        if key not in by_sig or len(canon(rec["case"])) < len(canon(by_sig[key][0]["case"])):
            by_sig[key] = (rec, path)
    final_paths = []
    for key, (rec, path) in sorted(by_sig.items()):
        # rewrite the file with the smallest case found by any shard
        name = os.path.basename(path) if path else "%s-%s.json" % (pid, "-".join(key))
        fp = os.path.join(REPLAY_DIR, name)
        os.makedirs(REPLAY_DIR, exist_ok=True)
        rec = dict(rec)
        rec["seed"] = seed
        rec["tier"] = tier
        with open(fp, "w") as f:
            json.dump(rec, f, indent=1, sort_keys=True)
        final_paths.append((key, fp, rec))
    required_missing = []
    if tier == "thorough" and hasattr(check, "REQUIRED_CLASSES"):
        for cls in check.REQUIRED_CLASSES:
            if not feats.get(cls):
                required_missing.append(cls)
    kf_entries = [e for e in findings.load(pid) if e.get("status") == "known"]
    coverage = {
        "evaluations": agg["evaluations"],
        "distinct_nontrivial": len(nontrivial),
        "rule": check.RULE,
        "samples": outs,
        "cases_generated": agg["cases"],
        "rejected": agg["rejected"],
        "inconclusive": agg["inconclusive"],
        "excluded_known": dict(known),
        "classes": dict(sorted(feats.items())),
        "per_version": dict(sorted(perv.items())),
        "generator_mix": dict(sorted(mix.items())),
        "other_signatures": others,
        "known_findings_listed": [e["id"] for e in kf_entries],
        "shards": len(shards),
        "shards_stopped_by_wall_budget": stopped,
        "required_classes_missing": required_missing,
    }
    if extra:
        coverage.update(extra)
    if hasattr(check, "coverage_extra"):
        coverage.update(check.coverage_extra(tier, coverage))
    assumptions = list(getattr(check, "ASSUMPTIONS", []))
    assumptions.append("interpreters: " + ", ".join("%s=%s" % kv for kv in sorted(interp.items())))
    if missing:
        assumptions.append("interpreters missing (not explored): " + ", ".join(sorted(missing)))
    assumptions.append("library imported from %s (working tree, no build step: pure Python)" % poolmod.repo_path())
    ev = {
        "property_id": pid,
        "tier": tier,
        "seed": seed,
        "level": "exploration",
        "coverage": coverage,
        "assumptions": assumptions,
        "wall_s": round(wall, 2),
        "violations": len(final_paths),
    }
    if errors:
        ev["harness_errors"] = errors[:5]
    if not os.environ.get("VERIF_NO_EVIDENCE"):  # set only by the sensitivity self-test (scratch trees)
        with open(os.path.join(EVIDENCE_DIR, "%s.json" % pid), "w") as f:
            json.dump(ev, f, indent=1, sort_keys=True)
            f.write("\n")
        if tier == "thorough":
            # keep the last thorough run's evidence next to the (later rewritten) per-property file
            os.makedirs(os.path.join(EVIDENCE_DIR, "thorough"), exist_ok=True)
            with open(os.path.join(EVIDENCE_DIR, "thorough", "%s.json" % pid), "w") as f:
                json.dump(ev, f, indent=1, sort_keys=True)
                f.write("\n")
    for e in kf_entries:
        print("KNOWN-FINDING: property=%s %s [%s; seen %d times in this run]" % (pid, e["what"], e["id"], known.get(e["id"], 0)))
    if final_paths:
        for key, fp, rec in final_paths:
            print("VIOLATION property=%s replay=%s" % (pid, fp))
            print("  signature=%s/%s version=%s" % (key[0], key[1], rec["version"]))
            print("  detail=%s" % rec["violation"].get("detail", "")[:400])
        for k, o in others.items():
            print("  also seen (unshrunk): %s on %s: %s" % (k, o["version"], o["detail"][:200]))
        return 1
    if errors:
        print("HARNESS-ERROR property=%s" % pid)
        for e in errors[:3]:
            print("  " + str(e)[-1200:])
        return 2
    if required_missing:
        print("HARNESS-ERROR property=%s required feature classes never generated: %s" % (pid, required_missing))
        return 2
    print("OK property=%s tier=%s seed=%d evaluations=%d distinct_nontrivial=%d rejected=%d known_excluded=%d wall=%.1fs"
          % (pid, tier, seed, agg["evaluations"], len(nontrivial), agg["rejected"], sum(known.values()), wall))
    return 0


def _trim_sample(case, info):
    def trim(x):
        if isinstance(x, str) and len(x) > 600:
            return x[:600] + "...(%d chars)" % len(x)
        if isinstance(x, list):
            return [trim(i) for i in x[:40]]
        if isinstance(x, dict):
            return {k: trim(v) for k, v in x.items()}
        return x
    return {"case": trim(case), "on": info.get("version")}


def replay_main(pid, path):
    check = load_check(pid)
    if hasattr(check, "NEEDS"):
        ensure_deps(check.NEEDS)
    with open(path) as f:
        rec = json.load(f)
    ctx = Ctx(check, "quick", 0, 0, 1, 3600.0)
    ctx.known = []  # replay reports what the case does, listed or not
    try:
        fail = run_replay_record(ctx, rec)
    except poolmod.HarnessError as e:
        print("HARNESS-ERROR %s" % e)
        return 2
    finally:
        ctx.pool.close()
    if ctx.best is not None:
        print("VIOLATION property=%s replay=%s" % (pid, path))
        print("  signature=%s/%s version=%s" % (ctx.best["signature"][0], ctx.best["signature"][1], ctx.best["version"]))
        print("  detail=%s" % ctx.best["violation"].get("detail", "")[:600])
        return 1
    print("OK property=%s replay=%s (no violation reproduced)" % (pid, path))
    return 0


def main(argv):
    import argparse
    ap = argparse.ArgumentParser()
    ap.add_argument("pid")
    ap.add_argument("--tier", default=os.environ.get("VERIF_TIER", "quick"), choices=["quick", "thorough"])
    ap.add_argument("--replay")
    ap.add_argument("--shard", type=int)
    ap.add_argument("--nshards", type=int, default=1)
    ap.add_argument("--out")
    a = ap.parse_args(argv)
    try:
        seed = int(os.environ.get("VERIF_SEED", "1"))
    except ValueError:
        seed = 1
    pid = a.pid.upper()
    if a.replay:
        return replay_main(pid, a.replay)
    if a.shard is not None:
        return shard_main(pid, a.tier, seed, a.shard, a.nshards, a.out)
    return parent_main(pid, a.tier, seed)
