# G-CONST: constants as tagged, JSON-able specs (bit-exact floats), plus the
# "variant" operator producing near-misses, plus rendering to source literals.
# Driver side (3.12, Hypothesis).
import math
import struct

from hypothesis import strategies as st


def f2h(x):
    return struct.pack(">d", x).hex()


def h2f(h):
    return struct.unpack(">d", bytes.fromhex(h))[0]


NAN_HEX = ["7ff8000000000000", "fff8000000000000", "7ff8000000000001", "7ff4000000000000"]
FLOAT_EDGE = [0.0, -0.0, 1.0, -1.0, 0.5, 1e308, 5e-324, 2.2250738585072014e-308, float("inf"), float("-inf"),
              1.5, 2.0 ** 53, 0.1, 1e22, 3.141592653589793]
INT_EDGE = [0, 1, -1, 2, 255, 256, 2 ** 31, -2 ** 31, 2 ** 53 - 1, 2 ** 53, 2 ** 53 + 1, -(2 ** 53) + 1, -(2 ** 53),
            -(2 ** 53) - 1, 2 ** 63, 2 ** 64, 2 ** 100, -(2 ** 100), 10 ** 30, 2 ** 1000]
STR_EDGE = ["", "a", "b", "doc", "x y", "\n", "\x00", "\x7f", "é", " ", "\U0001f600", "\ud800", "\udc80x", "a\udfffb",
            "😀", "'", '"', "\\", "nan", "inf", "͸", "\U000e0100", "{}", "%s",
            # a lone surrogate next to characters whose printability depends on the interpreter's
            # Unicode database version (assigned in Unicode 12-15)
            "\ud800\u0870", "\udc80\U0001fae0", "\ud800\u0cf3", "\U0001fae0",
            # line separators that str.splitlines() honours and JSON emits raw
            "a\u2028b", "\x85", "x\u2029", "\x0c\x1c\x1d\x1e",
            # a high surrogate directly followed by a low one, as two code points (not "lone", still not UTF-8)
            "\ud83d\ude00", "x\ud800\udc00y"]
BYTES_EDGE = [b"", b"a", b"\x00", b"\xff\xfe", b"doc", b"'\"\\"]


def float_specs():
    return st.one_of(
        st.sampled_from([["float", f2h(x)] for x in FLOAT_EDGE] + [["float", h] for h in NAN_HEX]),
        st.floats(allow_nan=True, allow_infinity=True, width=64).map(lambda x: ["float", f2h(x)]),
    )


def int_specs():
    return st.one_of(
        st.sampled_from([["int", str(i)] for i in INT_EDGE]),
        st.integers(-10, 300).map(lambda i: ["int", str(i)]),
        st.integers(-(2 ** 70), 2 ** 70).map(lambda i: ["int", str(i)]),
    )


def str_specs():
    return st.one_of(
        st.sampled_from([["str", s] for s in STR_EDGE]),
        st.text(st.characters(min_codepoint=1, max_codepoint=0x10FFFF), max_size=6).map(lambda s: ["str", s]),
    )


def leaf_specs():
    return st.one_of(
        st.sampled_from([["none"], ["ell"], ["bool", True], ["bool", False]]),
        int_specs(),
        float_specs(),
        st.tuples(float_specs(), float_specs()).map(lambda p: ["complex", p[0][1], p[1][1]]),
        str_specs(),
        st.one_of(st.sampled_from(BYTES_EDGE), st.binary(max_size=5)).map(lambda b: ["bytes", b.hex()]),
    )


def const_specs(max_leaves=8):
    return st.recursive(
        leaf_specs(),
        lambda inner: st.one_of(
            st.lists(inner, max_size=4).map(lambda xs: ["tuple", xs]),
            st.lists(inner, max_size=4).map(lambda xs: ["fset", xs]),
        ),
        max_leaves=max_leaves,
    )


# -- variants: near-misses of a value ---------------------------------------
_EQ_FAMILIES = [
    [["int", "1"], ["bool", True], ["float", f2h(1.0)], ["complex", f2h(1.0), f2h(0.0)]],
    [["int", "0"], ["bool", False], ["float", f2h(0.0)], ["float", f2h(-0.0)], ["complex", f2h(0.0), f2h(0.0)],
     ["complex", f2h(-0.0), f2h(0.0)], ["complex", f2h(0.0), f2h(-0.0)], ["complex", f2h(-0.0), f2h(-0.0)]],
    [["str", "a"], ["bytes", b"a".hex()]],
    [["str", ""], ["bytes", ""], ["tuple", []], ["fset", []]],
    [["float", h] for h in NAN_HEX],
    [["complex", NAN_HEX[0], f2h(0.0)], ["complex", NAN_HEX[1], f2h(0.0)], ["complex", f2h(0.0), NAN_HEX[0]]],
    [["int", "2"], ["float", f2h(2.0)]],
    [["none"], ["bool", False], ["int", "0"]],
    [["float", f2h(float("inf"))], ["float", f2h(float("-inf"))]],
    [["int", str(2 ** 53)], ["float", f2h(2.0 ** 53)], ["int", str(2 ** 53 + 1)]],
    # frozensets holding several NaN-keyed members (distinct objects, so the set keeps them all): with all NaNs
    # identified these are the members' keys repeated - a hash folded over the members must not count them twice
    [["fset", [["float", NAN_HEX[0]], ["str", "a"]]], ["fset", [["float", NAN_HEX[0]], ["float", NAN_HEX[1]], ["str", "a"]]],
     ["fset", [["float", NAN_HEX[0]], ["float", NAN_HEX[0]], ["str", "a"]]], ["fset", [["float", NAN_HEX[1]], ["str", "a"]]]],
    [["fset", [["tuple", [["float", NAN_HEX[0]], ["int", "1"]]]]],
     ["fset", [["tuple", [["float", NAN_HEX[0]], ["int", "1"]]], ["tuple", [["float", NAN_HEX[1]], ["int", "1"]]]]],
     ["fset", [["complex", NAN_HEX[0], f2h(0.0)], ["complex", NAN_HEX[1], f2h(0.0)]]], ["fset", [["complex", NAN_HEX[0], f2h(0.0)]]]],
]


@st.composite
def variant_of(draw, spec):
    """a value that is the same, or differs from spec in a way == may miss"""
    kind = spec[0]
    choice = draw(st.integers(0, 3))
    if choice == 0:
        return spec  # same value, rebuilt as a distinct object in the worker
    for fam in _EQ_FAMILIES:
        if spec in fam:
            return draw(st.sampled_from(fam))
    if kind in ("tuple", "fset") and spec[1]:
        i = draw(st.integers(0, len(spec[1]) - 1))
        items = list(spec[1])
        items[i] = draw(variant_of(items[i]))
        if choice == 3:
            return ["tuple" if kind == "fset" else "fset", items]
        return [kind, items]
    if kind == "int":
        v = int(spec[1])
        if abs(v) < 2 ** 53:
            return draw(st.sampled_from([["float", f2h(float(v))], ["int", str(v)], ["int", str(v + 1)]]))
    if kind == "float":
        x = h2f(spec[1])
        if x == x and not math.isinf(x) and x == int(x) and abs(x) < 2 ** 53:
            return ["int", str(int(x))]
    if kind == "complex":
        return draw(st.sampled_from([["complex", spec[2], spec[1]], ["float", spec[1]], spec]))
    if kind == "str":
        try:
            return draw(st.sampled_from([["bytes", spec[1].encode("utf-8").hex()], spec, ["str", spec[1] + " "]]))
        except UnicodeEncodeError:
            return spec
    if kind == "bytes":
        try:
            return draw(st.sampled_from([["str", bytes.fromhex(spec[1]).decode("ascii")], spec]))
        except UnicodeDecodeError:
            return spec
    return spec


@st.composite
def const_groups(draw, n=3):
    """(value, variant, variant, ...) so equal and almost-equal pairs dominate"""
    if draw(st.integers(0, 2)) == 0:
        fam = draw(st.sampled_from(_EQ_FAMILIES))
        base = draw(st.sampled_from(fam))
        wrap = draw(st.integers(0, 3))
        out = [base] + [draw(st.sampled_from(fam)) for _ in range(n - 1)]
        if wrap == 1:
            out = [["tuple", [o]] for o in out]
        elif wrap == 2:
            out = [["fset", [o]] for o in out]
        elif wrap == 3:
            out = [["tuple", [["int", "7"], ["fset", [o]]]] for o in out]
        return out
    base = draw(const_specs())
    return [base] + [draw(variant_of(base)) for _ in range(n - 1)]


# -- rendering to Python source ------------------------------------------------
def _float_src(h):
    x = h2f(h)
    if x != x:
        return "(1e999-1e999)" if h.startswith("f") else "-(1e999-1e999)"
    if math.isinf(x):
        return "1e999" if x > 0 else "-1e999"
    return repr(x)


def _str_src(s):
    out = []
    for ch in s:
        o = ord(ch)
        if ch == "\\":
            out.append("\\\\")
        elif ch == "'":
            out.append("\\'")
        elif 32 <= o < 127:
            out.append(ch)
        elif o < 256:
            out.append("\\x%02x" % o)
        elif o < 0x10000:
            out.append("\\u%04x" % o)
        else:
            out.append("\\U%08x" % o)
    return "'" + "".join(out) + "'"


def literal(spec, top=True):
    """Python source of a constant expression the compiler folds to the value
    (None if the value has no source form, e.g. a NaN payload)."""
    k = spec[0]
    if k == "none":
        return "None"
    if k == "ell":
        return "..."
    if k == "bool":
        return "True" if spec[1] else "False"
    if k == "int":
        v = int(spec[1])
        if len(spec[1]) > 4000:
            return None
        return spec[1] if v >= 0 else "-" + spec[1][1:]
    if k == "float":
        if spec[1] in NAN_HEX[2:]:
            return None
        return _float_src(spec[1])
    if k == "complex":
        re_, im = h2f(spec[1]), h2f(spec[2])
        if im != im or math.isinf(im) or re_ != re_:
            return None
        if spec[1] == f2h(0.0):
            return repr(im) + "j" if not str(im).startswith("-") else None
        if math.isinf(re_) or str(im).startswith("-"):
            return None
        return "(%s+%sj)" % (_float_src(spec[1]), repr(im))
    if k == "str":
        return _str_src(spec[1])
    if k == "bytes":
        return "b'" + "".join("\\x%02x" % b for b in bytes.fromhex(spec[1])) + "'"
    if k == "tuple":
        items = [literal(x, False) for x in spec[1]]
        if any(i is None for i in items):
            return None
        if len(items) == 1:
            return "(" + items[0] + ",)"
        return "(" + ", ".join(items) + ")"
    if k == "fset":
        # only source form: `x in {...}` -- handled by the caller
        return None
    raise ValueError(k)


def fset_items_literal(spec):
    if spec[0] != "fset" or not spec[1]:
        return None
    items = [literal(x, False) for x in spec[1]]
    if any(i is None for i in items):
        return None
    return "{" + ", ".join(items) + "}"
