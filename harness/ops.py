# Worker-side op registry.  Python 3.7 syntax, stdlib only.
import ast
import collections
import glob
import os
import sys
import traceback
import types
import warnings

import refs

V = sys.version_info[:2]
REGISTRY = {}
REPO = os.environ.get("VERIF_REPO", "/repo")


class Reject(Exception):
    """The case is outside the property's domain on this interpreter."""


def op(name):
    def deco(fn):
        REGISTRY[name] = fn
        return fn
    return deco


def library_info():
    import code_data
    p = os.path.dirname(os.path.abspath(code_data.__file__))
    return {"path": p, "version": getattr(code_data, "__version__", None)}


def lib():
    import code_data
    return code_data


# ------------------------------------------------------------------ violations
def exc_sig(e):
    """type + innermost code_data frame (function name), for bucketing."""
    tb = e.__traceback__
    where = "?"
    for fs in traceback.extract_tb(tb):
        fn = fs.filename.replace("\\", "/")
        if "/code_data/" in fn:
            where = "%s.%s" % (os.path.basename(fn)[:-3], fs.name)
    return "%s@%s" % (type(e).__name__, where)


def exc_detail(e):
    s = "%s: %s" % (type(e).__name__, e)
    return s[:500]


class Verdict(object):
    def __init__(self):
        self.violations = []
        self.features = collections.Counter()
        self.info = {}

    def violate(self, kind, sub, detail="", **extra):
        if len(self.violations) < 25:
            d = {"kind": kind, "sub": sub, "detail": str(detail)[:700]}
            d.update(extra)
            self.violations.append(d)

    def result(self):
        return {
            "status": "violation" if self.violations else "ok",
            "violations": self.violations,
            "features": dict(self.features),
            "info": self.info,
        }


# ------------------------------------------------------------------ program cases
_CORPUS = None


def corpus_files():
    """Sorted .py files of this interpreter's own standard library + the
    repository's minimized examples."""
    global _CORPUS
    if _CORPUS is None:
        root = os.path.dirname(os.__file__)
        fs = sorted(glob.glob(root + "/**/*.py", recursive=True))
        fs = [f for f in fs if "/site-packages/" not in f]
        mini = sorted(glob.glob(os.path.join(REPO, "code_data", "_test_minimized", "*.py")))
        _CORPUS = mini + fs
    return _CORPUS


@op("corpus_size")
def op_corpus_size(args):
    fs = corpus_files()
    return {"n": len(fs), "mini": sum(1 for f in fs if "_test_minimized" in f)}


_REJECT_EXC = (SyntaxError, ValueError, OverflowError, RecursionError, MemoryError,
               UnicodeError)


def _expand_macros(src):
    # lines of the form  <indent>#@FILL kind start count   are expanded here so
    # that >65k-entry tables do not need a megabyte payload
    if "#@FILL" not in src:
        return src
    out = []
    for line in src.split("\n"):
        s = line.strip()
        if s.startswith("#@FILL"):
            ind = line[: len(line) - len(line.lstrip())]
            _, kind, start, count = s.split()
            start = int(start)
            count = int(count)
            if kind == "names":
                out.append(ind + ";".join("n%d=0" % i for i in range(start, start + count)))
            elif kind == "consts":
                out.append(ind + ";".join("x=%d" % (1000 + i) for i in range(start, start + count)))
            elif kind == "pad":
                out.append(ind + ";".join(["x=1"] * count))
            elif kind == "lines":
                out.extend([""] * count)
            else:
                raise Reject("unknown macro " + kind)
        else:
            out.append(line)
    return "\n".join(out)


def get_source(case):
    """-> (source text or bytes, filename).  Raises Reject."""
    if "corpus" in case:
        fs = corpus_files()
        f = fs[case["corpus"] % len(fs)]
        with open(f, "rb") as fh:
            data = fh.read()
        win = case.get("window")
        if win is not None:
            try:
                tree = ast.parse(data)
            except _REJECT_EXC as e:
                raise Reject("corpus parse: %s" % type(e).__name__)
            body = tree.body
            if not body:
                raise Reject("empty corpus file")
            a = win[0] % len(body)
            n = 1 + win[1] % min(len(body), 12)
            stmts = body[a:a + n]
            lo = stmts[0].lineno
            for d in getattr(stmts[0], "decorator_list", []) or []:
                lo = min(lo, d.lineno)
            hi = body[a + n].lineno if a + n < len(body) else None
            if hi is not None:
                for d in getattr(body[a + n], "decorator_list", []) or []:
                    hi = min(hi, d.lineno)
            lines = data.split(b"\n")
            # keep a coding line if there is one
            head = b""
            for l in lines[:2]:
                if l.startswith(b"#") and b"coding" in l:
                    head = l + b"\n"
            seg = lines[lo - 1:(hi - 1) if hi else None]
            data = head + b"\n".join(seg) + b"\n"
        return data, f
    src = _expand_macros(case["src"])
    return src, case.get("filename", "<verif>")


def compile_case(case):
    src, fn = get_source(case)
    mode = case.get("mode", "exec")
    opt = case.get("optimize", 0)
    try:
        with warnings.catch_warnings():
            warnings.simplefilter("ignore")
            return compile(src, fn, mode, flags=case.get("flags", 0), dont_inherit=True, optimize=opt)
    except _REJECT_EXC as e:
        raise Reject("compile: %s" % type(e).__name__)


@op("ping")
def op_ping(args):
    return {"status": "ok", "version": list(sys.version_info[:3])}


@op("source")
def op_source(args):
    """Return the source of a case (for replay files / samples)."""
    src, fn = get_source(args["case"])
    if isinstance(src, bytes):
        src = src.decode("utf-8", "replace")
    return {"status": "ok", "src": src[: args.get("limit", 20000)], "filename": fn}


# property ops live in their own modules
import ops_prog  # noqa: E402,F401
for _m in ("ops_const", "ops_json", "ops_line", "ops_build", "ops_hist", "ops_cli", "ops_flags"):
    try:
        __import__(_m)
    except ImportError as _e:  # module not written yet
        if _m not in str(_e):
            raise
