#!/venv/bin/python
# Sensitivity self-test: apply each seeded change (seeded/<name>/patch.diff) to a scratch
# worktree of /repo (under /tmp, removed afterwards), confirm the baseline tests still
# pass and the demonstration fails with / passes without the change, then aim the
# property's quick check at the scratch tree (VERIF_REPO) and expect exit 1.
import glob
import json
import os
import subprocess
import sys
import time

ROOT = os.path.dirname(os.path.dirname(os.path.abspath(__file__)))
SHIM = os.path.join(ROOT, "harness", "shims")
PY = {"3.7": "/root/.pyenv/versions/3.7.16/bin/python3", "3.8": "/root/.pyenv/versions/3.8.18/bin/python3",
      "3.9": "/root/.pyenv/versions/3.9.18/bin/python3", "3.10": "/root/.pyenv/versions/3.10.13/bin/python3"}
BASE_TESTS = ["/venv/bin/python", "-m", "pytest", "-q", "-p", "no:cacheprovider", "code_data/_line_mapping_test.py",
              "code_data/_flags_data_test.py"]


def sh(cmd, cwd=None, env=None, timeout=3600):
    p = subprocess.run(cmd, cwd=cwd, env=env, stdout=subprocess.PIPE, stderr=subprocess.STDOUT, timeout=timeout)
    return p.returncode, p.stdout.decode("utf-8", "replace")


def demo(tree, path):
    out = {}
    for v, exe in PY.items():
        env = dict(os.environ, PYTHONPATH=SHIM + ":" + tree, PYTHONHASHSEED="0")
        rc, txt = sh([exe, "-B", path], env=env, timeout=600)
        out[v] = rc
    return out


def run_one(name, checks=None, tier="quick", seed="1"):
    d = os.path.join(ROOT, "seeded", name)
    meta = json.load(open(os.path.join(d, "meta.json")))
    prop = meta["property"]
    tree = "/tmp/seedrun-%s-%d" % (name, os.getpid())
    res = {"name": name, "property": prop}
    sh(["git", "-C", "/repo", "worktree", "add", "--detach", "-f", tree, "HEAD"])
    try:
        res["demo_without"] = demo(tree, os.path.join(d, "demo.py"))
        rc, txt = sh(["git", "-C", tree, "apply", "--3way", os.path.join(d, "patch.diff")])
        if rc != 0:
            sh(["git", "-C", tree, "reset", "--hard", "-q"])  # a failed --3way leaves the file unmerged, with conflict markers
            rc, txt = sh(["git", "-C", tree, "apply", os.path.join(d, "patch.diff")])
        if rc != 0:
            # later fix: commits may have moved the context: same edit, fuzzy context
            rc, txt = sh(["patch", "-p1", "--fuzz=3", "-i", os.path.join(d, "patch.diff")], cwd=tree)
        res["applies"] = rc == 0
        if rc != 0:
            res["apply_error"] = txt[-400:]
            return res
        rc, txt = sh(BASE_TESTS, cwd=tree)
        res["baseline"] = txt.strip().splitlines()[-1] if txt.strip() else ""
        res["baseline_ok"] = "30 passed" in res["baseline"]
        res["demo_with"] = demo(tree, os.path.join(d, "demo.py"))
        res["checks"] = {}
        for pid in (checks or [prop]):
            env = dict(os.environ, VERIF_REPO=tree, VERIF_SEED=seed, VERIF_NO_EVIDENCE="1")
            t0 = time.time()
            rc, txt = sh(["/venv/bin/python", os.path.join(ROOT, "run_check.py"), pid, "--tier", tier], cwd=ROOT, env=env)
            lines = [l for l in txt.splitlines() if l.startswith(("VIOLATION", "  signature", "  detail", "HARNESS"))]
            res["checks"][pid] = {"exit": rc, "wall_s": round(time.time() - t0, 1), "lines": [l[:300] for l in lines[:6]]}
    finally:
        sh(["git", "-C", "/repo", "worktree", "remove", "--force", tree])
    return res


def main():
    names = sys.argv[1:] or sorted(os.path.basename(p) for p in glob.glob(os.path.join(ROOT, "seeded", "*")) if os.path.isdir(p))
    out_path = os.environ.get("SEEDED_OUT") or os.path.join(ROOT, "selftest", "RESULTS.json")  # SEEDED_OUT: parallel batches, merged later
    results = {}
    if os.path.exists(out_path):
        results = json.load(open(out_path))
    for n in names:
        extra = None
        if ":" in n:
            n, extra = n.split(":")
            extra = extra.split(",")
        r = run_one(n, extra)
        if extra and n in results:
            results[n].setdefault("checks", {}).update(r.get("checks", {}))
        else:
            results[n] = r
        caught = [p for p, c in r.get("checks", {}).items() if c["exit"] == 1]
        print(n, "applies=%s baseline_ok=%s demo_with=%s demo_without=%s caught_by=%s" % (
            r.get("applies"), r.get("baseline_ok"), r.get("demo_with"), r.get("demo_without"), caught), flush=True)
        json.dump(results, open(out_path, "w"), indent=1, sort_keys=True)


if __name__ == "__main__":
    main()
