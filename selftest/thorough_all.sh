#!/bin/bash
# Run every registered thorough check once on the current tree (sequentially; each uses all cores).
cd "$(dirname "$0")/.."
props=${@:-C01 C02 C03 C04 C05 C06 C07 C08 C09 C10 C11 C12 C13 C14 C15 C16}
for p in $props; do
  start=$(date +%s)
  out=$(VERIF_SEED=${VERIF_SEED:-1} PYTHONHASHSEED=0 /venv/bin/python run_check.py $p --tier thorough 2>&1); rc=$?
  echo "$p exit=$rc wall=$(( $(date +%s) - start ))s $(echo "$out" | grep -E '^(OK|VIOLATION|HARNESS|  sig|  det)' | head -4 | cut -c1-220 | tr '\n' ' ')"
done
