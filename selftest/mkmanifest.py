import json
props=[json.loads(l) for l in open('/verif/properties.jsonl')]
claimed = json.load(open('/verif/checks/claimed.json'))
checks=[]
for p in props:
    pid=p['id']
    if pid not in claimed: continue
    c=claimed[pid]
    checks.append({
      "property_id": pid,
      "quick_cmd": "/venv/bin/python run_check.py %s --tier quick" % pid,
      "thorough_cmd": "/venv/bin/python run_check.py %s --tier thorough" % pid,
      "evidence_file": "/verif/evidence/%s.json" % pid,
      "replay_cmd_template": "/venv/bin/python run_check.py %s --replay {path}" % pid,
      "engine": "hypothesis-driver+cpython-workers",
      "level_claimed": {"category": "exploration", "text": c["text"], "design_ref": c["design_ref"]},
      "level_note": c["note"],
      "technique": c["technique"],
    })
na=[{"property_id":p['id'],"reason":"check not built yet in this session (see DESIGN.md section 13 build order); will be claimed once it is quiet on the unchanged tree and sensitive to seeded changes"} for p in props if p['id'] not in claimed]
m={
 "version":1,
 "setup_cmd":"/venv/bin/python setup_verif.py",
 "hooks":{"guard":"CODE_DATA_VERIF","enable":"no hooks: the library is pure Python and is imported from /repo's working tree by worker processes (PYTHONPATH=/verif/harness/shims:/repo); CODE_DATA_VERIF is unused",
          "baseline_off_cmd":"cd /repo && /venv/bin/python -m pytest -ra -q -p no:cacheprovider --timeout=900 --continue-on-collection-errors",
          "source_commits":[],"add_only":True},
 "engines":[{"name":"hypothesis-driver+cpython-workers","path":"/verif/run_check.py","serves_properties":[c["property_id"] for c in checks],
   "kind_free_text":"Hypothesis 6.168 strategies / state machines in /venv (3.12) generate pure-data cases; persistent stdlib-only worker subprocesses on real CPython 3.7/3.8/3.9/3.10 build the inputs, run the library from /repo and evaluate oracles that share no code with it (dis/opcode tables, PyCode_Addr2Line, co_lines, inspect, _PyCode_ConstantKey)"},
  {"name":"atheris-fuzz-c10","path":"/verif/harness/fuzz_c10.py","serves_properties":["C10"],
   "kind_free_text":"coverage-guided tier of C10's thorough command: atheris 3.0 (libFuzzer) under python3-vt on code_data._line_mapping's stage functions with the round-trip / reference-reader oracle inside the target; failing inputs are re-verified through the worker path before they count"}],
 "checks":checks,
 "not_applicable":na,
 "notes":"exit 0 held / 1 VIOLATION / 2 harness error (never a violation). Known findings: /verif/known_findings.jsonl. VERIF_SEED seeds every Hypothesis run (seed*1000+shard). VERIF_REPO can aim the checks at a scratch copy (self-test only)."
}
json.dump(m,open('/verif/MANIFEST.json','w'),indent=1)

