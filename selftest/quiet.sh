#!/bin/bash
# Quietness: run every registered quick check on the current tree at several seeds, in
# fresh processes; every run must exit 0.  usage: quiet.sh "2 3 4" [tier] [props...]
seeds=${1:-"2 3 4 5 7"}; tier=${2:-quick}; shift; shift
props=${@:-C01 C02 C03 C04 C05 C06 C07 C08 C09 C10 C11 C12 C13 C14 C15 C16}
cd "$(dirname "$0")/.."
for s in $seeds; do for p in $props; do
  start=$(date +%s)
  out=$(VERIF_SEED=$s VERIF_NO_EVIDENCE=1 PYTHONHASHSEED=0 /venv/bin/python run_check.py $p --tier $tier 2>&1); rc=$?
  echo "seed=$s $p exit=$rc wall=$(( $(date +%s) - start ))s $(echo "$out" | grep -E '^(OK|VIOLATION|HARNESS)' | head -2 | cut -c1-160 | tr '\n' ' ')"
done; done
