#!/venv/bin/python
# Markdown summary of selftest/RESULTS.json (which checks catch which seeded changes)
import json
import os
ROOT = os.path.dirname(os.path.dirname(os.path.abspath(__file__)))
res = json.load(open(os.path.join(ROOT, "selftest", "RESULTS.json")))
print("| seeded change | what it changes (agent's summary, shortened) | demo fails on | caught by (quick tier) |")
print("|---|---|---|---|")
for name in sorted(res):
    r = res[name]
    meta = json.load(open(os.path.join(ROOT, "seeded", name, "meta.json")))
    summ = " ".join(str(meta.get("summary", "")).split())[:150]
    fails = ",".join(v for v, rc in sorted((r.get("demo_with") or {}).items()) if rc != 0) or "-"
    caught = ", ".join("%s (%ss)" % (p, c["wall_s"]) for p, c in sorted(r.get("checks", {}).items()) if c["exit"] == 1) or "**none**"
    missed = [p for p, c in r.get("checks", {}).items() if c["exit"] != 1]
    if missed and caught != "**none**":
        caught += "; not by " + ", ".join(missed)
    print("| %s | %s | %s | %s |" % (name, summ.replace("|", "/"), fails, caught))
