#!/venv/bin/python
# Entry point:  run_check.py <ID> --tier quick|thorough   |   run_check.py <ID> --replay FILE
# exit 0 = held on everything explored; 1 = VIOLATION line printed; 2 = harness error.
import os
import sys

ROOT = os.path.dirname(os.path.abspath(__file__))
sys.path.insert(0, ROOT)
sys.path.insert(0, os.path.join(ROOT, "harness"))
os.environ.setdefault("PYTHONHASHSEED", "0")
sys.dont_write_bytecode = True

if __name__ == "__main__":
    import runner
    try:
        sys.exit(runner.main(sys.argv[1:]))
    except KeyboardInterrupt:
        sys.exit(2)
    except SystemExit:
        raise
    except BaseException:
        import traceback
        traceback.print_exc()
        print("HARNESS-ERROR (uncaught)")
        sys.exit(2)
