# Driver side of the call-history checks (C12, C06): Hypothesis RuleBasedStateMachine
# whose state lives in worker sessions; every rule is one RPC per interpreter and
# the invariant is evaluated by the worker after each step.
import time

import hypothesis
from hypothesis import HealthCheck, Phase, settings
from hypothesis.stateful import RuleBasedStateMachine, run_state_machine_as_test

import runner
from checks import _prog, c07


class Session(object):
    """one history on all interpreters that accept the program"""

    def __init__(self, ctx, kind, prog):
        self.ctx = ctx
        self.kind = kind
        self.prog = prog
        self.steps = []
        self.handles = {}
        self.info = {}
        a = c07._args(prog)
        a["kind"] = kind
        versions = [v for v in _prog.versions_for(prog) if v in ctx.pool.workers]
        res = ctx.pool.call("hist_open", a, versions)
        for v, r in res.items():
            if r.get("status") in ("ok", "violation") and "handle" in r:
                self.handles[v] = r["handle"]
                self.info[v] = r.get("info") or {}
        self.account(res)

    def case(self):
        return {"prog": self.prog, "steps": [list(s) for s in self.steps]}

    def account(self, res, in_hypothesis=True):
        return self.ctx.account(self.case(), res, None, in_hypothesis)

    def step(self, rule, arg=None, in_hypothesis=True):
        ctx = self.ctx
        now = time.monotonic()
        if in_hypothesis:
            if ctx.target is not None and now - ctx.first_fail_t > ctx.shrink_cap:
                raise runner.StopSearch()
            if ctx.target is None and now - ctx.t0 > ctx.budget_s:
                ctx.stopped_by_budget = True
                raise runner.StopSearch()
        if not self.handles:
            return
        self.steps.append([rule, arg])
        res = {}
        pend = {}
        for v, h in self.handles.items():
            res[v] = ctx.pool.call_one(v, "hist_step", {"handle": h, "rule": rule, "arg": arg})
        return self.account(res, in_hypothesis)

    def close(self, nontrivial_rule=None):
        for v, h in self.handles.items():
            try:
                self.ctx.pool.call_one(v, "hist_close", {"handle": h})
            except Exception:
                pass
        if nontrivial_rule is not None and self.steps:
            h = runner.case_hash(self.case())
            for v in self.handles:
                if nontrivial_rule(self, v):
                    self.ctx.nontrivial.add(h + v)
                    self.ctx._sample(self.case(), {}, v)
            self.ctx.features["histories"] += 1
            self.ctx.features["history_steps"] += len(self.steps)
        self.handles = {}


def run_machine(ctx, machine_cls, n_examples, steps):
    per_shard = max(1, n_examples // ctx.nshards)
    st_ = settings(max_examples=per_shard, stateful_step_count=steps, deadline=None, database=None, derandomize=False,
                   report_multiple_bugs=False, phases=[Phase.generate, Phase.shrink],
                   suppress_health_check=[HealthCheck.too_slow, HealthCheck.data_too_large, HealthCheck.large_base_example,
                                          HealthCheck.filter_too_much],
                   verbosity=hypothesis.Verbosity.quiet)
    seeded = hypothesis.seed(ctx.seed * 1000 + ctx.shard)(machine_cls)

    def test():
        run_state_machine_as_test(seeded, settings=st_)
    runner.run_hypothesis_test(ctx, test)


def replay(ctx, rec, kind, nontrivial_rule=None):
    case = rec["case"]
    s = Session(ctx, kind, case["prog"])
    if rec.get("version") and rec["version"] in s.handles:
        pass
    for rule, arg in case["steps"]:
        s.step(rule, arg, in_hypothesis=False)
    s.close(nontrivial_rule)
    return ctx.best
