# C07 - JSON form is strict, schema-valid and round-trips without loss
import json

import gen_json
from checks import _prog

ID = "C07"
OP = None
NEEDS = ["jsonschema"]
VERSIONS = _prog.VERSIONS
versions_for = _prog.versions_for
RULE = ("case = x in {decode(c), decode(c).normalize()} for c from constant-heavy generated programs (every constant kind in "
        "operand, dead-code/additional-argument, docstring, comprehension positions; surrogate file names), general "
        "generated programs / corpus, and hand-altered code objects (code.replace/CodeType putting NaN payloads, deep "
        "frozensets, -0.0 complex parts, surrogate strings into co_consts/co_names/co_varnames/co_name/co_filename); "
        "oracle = (1) strictness walker + json.dumps(allow_nan=False), (2) jsonschema.Draft7Validator on "
        "code_data.JSON_SCHEMA, (3) text from stdlib json and from orjson parsed back: from_json_data == x, equal hash, "
        "R-IDENT of to_code(), every constant's R-CKEY preserved; non-trivial = document with >=1 tagged encoding or a "
        "nested CodeData; distinct = sha1(case)+interpreter")
ASSUMPTIONS = _prog.PROG_ASSUMPTIONS + [
    "schema validation by jsonschema (independent of the repo's fastjsonschema); the published schema's operand anyOf contains the requirement-free NoArg object, so schema validity constrains the top-level/instruction shape only",
    "orjson 3.x in /venv is the second JSON implementation"]
REQUIRED_CLASSES = ["tag_bytes", "tag_complex", "tag_float_nan", "tag_float_inf", "tag_float_-inf", "tag_int", "tag_ellipsis",
                    "tag_frozenset", "tag_string", "tag_string_in_docstring", "tag_string_in_filename", "has_additional_args",
                    "normalized_input", "altered_operand", "altered_names"]

_validators = {}


def _validator(ctx, v):
    if v not in _validators:
        import jsonschema
        schema = ctx.pool.call_one(v, "json_schema", {})["schema"]
        jsonschema.Draft7Validator.check_schema(schema)
        _validators[v] = jsonschema.Draft7Validator(schema)
    return _validators[v]


def _args(case):
    a = {"normalize": bool(case.get("normalize"))}
    if "alter" in case:
        a["alter"] = case["alter"]
    else:
        a["case"] = {k: val for k, val in case.items() if k not in ("min_version", "normalize")}
    return a


def run_case(ctx, case, versions):
    import orjson
    a = _args(case)
    res = ctx.pool.call("c07_dump", a, versions)
    back = {}
    for v, r in res.items():
        text = r.pop("text", None)
        if text is None or r.get("status") not in ("ok", "violation"):
            continue
        doc = json.loads(text)
        errs = list(_validator(ctx, v).iter_errors(doc))
        if errs:
            e = errs[0]
            r.setdefault("violations", []).append({"kind": "schema_invalid", "sub": "/".join(str(p) for p in list(e.absolute_schema_path)[-3:]),
                                                   "detail": "%s at %s" % (e.message[:300], list(e.absolute_path)[:8])})
            r["status"] = "violation"
        try:
            otext = orjson.dumps(doc).decode("utf-8")
        except Exception as e:  # orjson refuses what the strictness walker should already have flagged
            r.setdefault("violations", []).append({"kind": "not_strict", "sub": "orjson_refuses", "detail": str(e)[:300]})
            r["status"] = "violation"
            continue
        back[v] = otext
    for v, otext in back.items():
        b = dict(a)
        b["text"] = otext
        b["where"] = "orjson"
        r2 = ctx.pool.call_one(v, "c07_back", b)
        if r2.get("status") == "violation":
            res[v].setdefault("violations", []).extend(r2["violations"])
            res[v]["status"] = "violation"
        res[v].setdefault("features", {})["orjson_roundtrips"] = 1
    return res


def strategy(tier):
    return gen_json.json_cases(max_size=20 if tier == "quick" else 40)


def fixed_cases(tier):
    out = gen_json.fixed_cases(big=(tier == "thorough"))
    if tier == "thorough":
        for i in range(39, 1760, 2):
            out.append({"corpus": i, "optimize": 0, "min_version": 7, "normalize": i % 4 == 1, "_label": "corpus_sample"})
    return out


def examples(tier):
    return 2500 if tier == "quick" else 45000


def wall_budget(tier):
    return 45.0 if tier == "quick" else 1500.0
