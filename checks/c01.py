# C01 - code -> data -> code round trip is lossless in every field
from checks import _prog

ID = "C01"
OP = "c01"
VERSIONS = _prog.VERSIONS
versions_for = _prog.versions_for
op_args = _prog.op_args
strategy = _prog.strategy
fixed_cases = _prog.fixed_cases
RULE = ("case = (source program | corpus file/window, compile mode, optimize level) compiled on each of 3.7-3.10; "
        "evaluation = one (case, interpreter) pair that compiled; oracle = R-IDENT(c, from_code(c).to_code()) on every co_* "
        "attribute recursively, constants by type and IEEE bits; non-trivial = the program has >=1 nested code object, or "
        ">=1 jump, or a line table with >=2 entries; distinct = sha1 of the canonical case + interpreter")
ASSUMPTIONS = _prog.PROG_ASSUMPTIONS
REQUIRED_CLASSES = ["has_extended_arg", "extended_arg_on_jump", "split_line_entry", "split_byte_entry", "unref_const",
                    "unref_nested_code", "unref_name", "unref_cell", "unref_local", "trailing_line_entry", "dline0_entry",
                    "zero_width_entry", "noline_entry", "noarg_nonzero", "operand_ge256", "operand_ge65536"]


def examples(tier):
    return 4000 if tier == "quick" else 100000


def wall_budget(tier):
    return 70.0 if tier == "quick" else 1500.0
