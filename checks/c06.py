# C06 - normalization yields a canonical form, whatever the operation history
from hypothesis import strategies as st
from hypothesis.stateful import RuleBasedStateMachine, initialize, rule

import gen_json
import gen_source
from checks import _hist, _prog

ID = "C06"
OP = None
VERSIONS = _prog.VERSIONS
RULE = ("case (a) = history: a generated program followed by up to 12 (thorough 30) operations chosen by a Hypothesis "
        "RuleBasedStateMachine from {code round trip, JSON round trip (real dumps/loads), normalize, normalize twice}; "
        "invariant after every step, evaluated in the worker: current.normalize() == first normal form, equal hash, and the "
        "normal form is a fixed point of normalize; case (b) = for a compiled program two independent serialization variants "
        "built by the reference assembler R-ASM (permuted co_consts/co_names/local part of co_varnames/co_cellvars with "
        "operands renumbered and widths re-laid-out, extra unreferenced entries, redundant EXTENDED_ARG prefixes on jumps, "
        "CO_NESTED toggled; self-checked to have the same symbolic reading as the original): all normalize to equal CodeData "
        "with equal hashes; non-trivial history = >=3 steps with >=2 rule kinds on a program whose first decode carries an "
        "override; non-trivial variant case = a recipe that changed >=1 operand value in the byte code; distinct = "
        "sha1(case)+interpreter")
ASSUMPTIONS = ["R-ASM and the line-table models re-lay-out the variant; every variant is self-checked (R-SYM equal to the original's) and a mismatch is a harness error, not a violation",
               "variants of the line table itself are not generated here (C10 covers redundant line entries)"]
REQUIRED_CLASSES = ["histories", "variant_changed_operands", "variant_extra_entries", "variant_redundant_prefix", "variant_nested_flag"]
_ctx = None


def _nontrivial(sess, v):
    kinds = set(s[0] for s in sess.steps)
    return len(sess.steps) >= 3 and len(kinds) >= 2 and bool(sess.info.get(v, {}).get("has_override"))


class CanonMachine(RuleBasedStateMachine):
    def __init__(self):
        super().__init__()
        self.sess = None

    @initialize(prog=gen_json.json_cases(max_size=12))
    def start(self, prog):
        prog = {k: v for k, v in prog.items() if k not in ("_label", "normalize")}
        self.sess = _hist.Session(_ctx, "c06", prog)

    @rule()
    def code_roundtrip(self):
        self.sess.step("code_roundtrip")

    @rule()
    def json_roundtrip(self):
        self.sess.step("json_roundtrip")

    @rule()
    def normalize(self):
        self.sess.step("normalize")

    @rule()
    def renormalize_twice(self):
        self.sess.step("renormalize_twice")

    def teardown(self):
        if self.sess is not None:
            self.sess.close(_nontrivial)


RECIPE = st.fixed_dictionaries({
    "seed": st.integers(1, 10 ** 6), "perm_consts": st.booleans(), "perm_names": st.booleans(), "perm_locals": st.booleans(),
    "perm_cells": st.booleans(), "extra": st.integers(0, 2), "extra_cells": st.integers(0, 1), "prefix_jumps": st.booleans(),
    "prefix_every": st.integers(1, 3), "toggle_nested": st.booleans()})


def variant_cases(tier):
    progs = gen_source.programs(max_size=25 if tier == "quick" else 50, modes=("exec",), mix=(70, 5, 25))
    return st.tuples(progs, RECIPE, RECIPE).map(lambda t: {"case": {k: v for k, v in t[0].items() if k != "_label"},
                                                            "recipes": [t[1], t[2]], "min_version": t[0].get("min_version", 7),
                                                            "_label": "variants_" + t[0].get("_label", "")})


def versions_for(case):
    return _prog.versions_for(case.get("prog", case.get("case", case)))


def hypothesis_run(ctx):
    global _ctx
    _ctx = ctx
    from hypothesis import HealthCheck, Phase, given, settings
    import hypothesis
    import runner
    quick = ctx.tier == "quick"
    # half of the wall budget for histories, half for variants
    total = ctx.budget_s
    ctx.budget_s = total * 0.45
    _hist.run_machine(ctx, CanonMachine, 350 if quick else 9000, 12 if quick else 30)
    if ctx.target is not None:
        return
    ctx.budget_s = total
    n = (1600 if quick else 36000) // ctx.nshards

    @hypothesis.seed(ctx.seed * 1000 + ctx.shard + 500)
    @settings(max_examples=max(1, n), deadline=None, database=None, derandomize=False, report_multiple_bugs=False,
              phases=[Phase.generate, Phase.shrink],
              suppress_health_check=[HealthCheck.too_slow, HealthCheck.data_too_large, HealthCheck.large_base_example],
              verbosity=hypothesis.Verbosity.quiet)
    @given(variant_cases(ctx.tier))
    def test(case):
        case = dict(case)
        label = case.pop("_label", None)
        ctx.evaluate(case, label)
    runner.run_hypothesis_test(ctx, test)


FULL = {"seed": 7, "perm_consts": True, "perm_names": True, "perm_locals": True, "perm_cells": True, "extra": 2, "extra_cells": 1,
        "prefix_jumps": True, "prefix_every": 1, "toggle_nested": True}
HALF = {"seed": 11, "perm_consts": True, "perm_names": False, "perm_locals": True, "perm_cells": False, "extra": 0, "extra_cells": 0,
        "prefix_jumps": False, "prefix_every": 2, "toggle_nested": False}


def fixed_cases(tier):
    out = []
    for c in gen_source.example_cases():
        out.append({"case": {k: v for k, v in c.items() if k != "_label"}, "recipes": [FULL, HALF], "min_version": 7, "_label": "variants_examples"})
    for s in ["def f(a, b=1, *c, d, **e):\n 'doc'\n x = a + b\n return lambda: (x, a)\n", "x = (1, b'x', 2.5)\nfor i in x:\n if i: continue\n"]:
        out.append({"prog": {"src": s, "mode": "exec", "optimize": 0, "min_version": 7},
                    "steps": [["code_roundtrip", None], ["json_roundtrip", None], ["normalize", None], ["code_roundtrip", None],
                              ["renormalize_twice", None], ["json_roundtrip", None]]})
    from checks import c08
    for s in c08.NAN_PROGRAMS + ["x = 1e999j - 1e999j\n", "x = (0.0, -0.0, 1e999 - 1e999)\ny = 1e999 * 0\n"]:
        out.append({"prog": {"src": s, "mode": "exec", "optimize": 0, "min_version": 7},
                    "steps": [["json_roundtrip", None], ["normalize", None], ["code_roundtrip", None], ["json_roundtrip", None]]})
    for s in gen_source.jump_cascade_sources() + gen_source.many_cells_sources():
        out.append({"prog": {"src": s, "mode": "exec", "optimize": 0, "min_version": 7},
                    "steps": [["normalize", None], ["code_roundtrip", None], ["code_roundtrip", None]]})
    if tier == "thorough":
        for i in range(39, 1760, 2):
            out.append({"case": {"corpus": i, "optimize": 0}, "recipes": [FULL, HALF], "min_version": 7, "_label": "variants_corpus"})
    return out


def run_case(ctx, case, versions):
    global _ctx
    _ctx = ctx
    if "recipes" in case:
        return ctx.pool.call("c06_variants", {"case": _prog.op_args(case["case"])["case"], "recipes": case["recipes"]}, versions)
    sess = _hist.Session(ctx, "c06", case["prog"])
    for r, a in case["steps"]:
        sess.step(r, a, in_hypothesis=False)
    sess.close(_nontrivial)
    return {}


def replay(ctx, rec):
    if "recipes" in rec["case"]:
        case = rec["case"]
        versions = [rec["version"]] if rec.get("version") else versions_for(case)
        return ctx.account(case, run_case(ctx, case, [v for v in versions if v in ctx.pool.workers]), "replay", in_hypothesis=False)
    return _hist.replay(ctx, rec, "c06", _nontrivial)


def wall_budget(tier):
    return 50.0 if tier == "quick" else 1500.0
