# C15 - the JSON form is portable across interpreter versions
import gen_json
from checks import _prog, c07

ID = "C15"
OP = None
PRODUCERS = ("3.7", "3.8", "3.9", "3.10")
VERSIONS = ("3.7", "3.8", "3.9", "3.10", "3.11", "3.12")
RULE = ("case = document to_json_data(x), x decoded (or normalized) from a generated constant-heavy / general program or a "
        "hand-altered code object on producer A in {3.7..3.10}; its JSON text is shipped to every other consumer B in "
        "{3.7..3.12} (3.11/3.12 only load, normalize, re-dump): canon(to_json_data(from_json_data(doc))) == canon(doc) and "
        "canon(to_json_data(from_json_data(doc).normalize())) == canon(A's normalized document), canon = sorted keys + "
        "frozenset element lists sorted; hash() of the loaded value must work on B; evaluation = one (document, consumer) "
        "pair; non-trivial = document with >=1 tagged constant or a nested CodeData (A != B always); distinct = "
        "sha1(case)+'A>B'")
ASSUMPTIONS = ["consumers 3.11/3.12 import code_data from the same working tree (dataclasses, JSON codec and normalize do not need dis)",
               "canonical text via stdlib json.dumps(sort_keys=True, ensure_ascii=True) on each side"]
REQUIRED_CLASSES = ["tag_bytes", "tag_complex", "tag_float_nan", "tag_int", "tag_frozenset", "tag_string"]


def versions_for(case):
    return list(VERSIONS)


def run_case(ctx, case, versions):
    a = c07._args(case)
    mv = case.get("min_version", 7)
    producers = [v for v in PRODUCERS if v in versions and int(v.split(".")[1]) >= mv]
    prod = ctx.pool.call("c15_produce", a, producers)
    res = {}
    for A, r in prod.items():
        if r.get("status") != "ok":
            res[A + ">-"] = r
            continue
        payload = {"text": r["text"], "canon": r["canon"], "canon_normalized": r["canon_normalized"],
                   "nontrivial": bool(r["info"].get("nontrivial"))}
        cons = ctx.pool.call("c15_consume", payload, [B for B in versions if B != A])
        for B, rc in cons.items():
            if rc.get("status") in ("ok", "violation"):
                rc.setdefault("features", {})
                if B == min(x for x in versions if x != A):
                    for k, n in (r.get("features") or {}).items():
                        rc["features"][k] = n
            res["%s>%s" % (A, B)] = rc
    return res


def strategy(tier):
    return gen_json.json_cases(max_size=15 if tier == "quick" else 30)


def fixed_cases(tier):
    return gen_json.fixed_cases()


def examples(tier):
    return 1500 if tier == "quick" else 60000


def wall_budget(tier):
    return 55.0 if tier == "quick" else 1200.0
