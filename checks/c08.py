# C08 - CodeData is an immutable value: hash/equality contract, type-exact equality
from hypothesis import strategies as st

import gen_const
import gen_source
import gen_util
from checks import _prog

ID = "C08"
OP = None
VERSIONS = _prog.VERSIONS
RULE = ("case (a) = a triple (value, variant, variant) of generated constants (near-misses dominate: 1/True/1.0, 0.0/-0.0, "
        "str/bytes, NaN objects with different payloads, the same value rebuilt through marshal); all 9 ordered pairs are "
        "compared as Constant, Instruction, CodeData (operand, additional argument, nested) against the reference partition "
        "R-CKEY (validated on NaN-free values against ctypes _PyCode_ConstantKey): == iff same key, symmetry, transitivity, "
        "hash/set/dict contract, equal => identical to_code(); case (b) = one program decoded by 4 routes (two compiles, "
        "marshal copy, JSON cycle) + normalized by two routes: all equal, equal hashes, identical to_code, every reachable "
        "dataclass instance frozen; non-trivial = a triple with an equal pair of distinct objects, a pair equal under raw == "
        "but not under the key, or a NaN; or a route set; distinct = sha1(case)+interpreter")
ASSUMPTIONS = ["R-CKEY (harness/refs.py) is validated against ctypes.pythonapi._PyCode_ConstantKey on every NaN-free pair; all NaNs are one key, as the property states",
               ] + _prog.PROG_ASSUMPTIONS
REQUIRED_CLASSES = ["pair_equal", "pair_raw_equal_but_distinct", "pair_with_nan", "route_sets", "program_with_nan"]


def versions_for(case):
    if "group" in case:
        return list(VERSIONS)
    return _prog.versions_for(case)


def run_case(ctx, case, versions):
    if "group" in case:
        return ctx.pool.call("c08_consts", {"group": case["group"]}, versions)
    return ctx.pool.call("c08_routes", _prog.op_args(case), versions)


def strategy(tier):
    groups = gen_const.const_groups(3).map(lambda g: {"group": g, "_label": "const_triples"})
    progs = gen_source.programs(max_size=20, mix=(85, 0, 15))
    return gen_util.weighted((3, groups), (1, progs))


NAN_PROGRAMS = [
    "x = 1e999-1e999\n", "x = (1e999-1e999, 1)\ny = 1e999-1e999\n", "def f():\n return -(1e999-1e999)\n",
    "x = 1e999-1e999 in {1e999-1e999, 0.0}\n", "x = -0.0\ny = 0.0\nz = (0.0, -0.0)\n", "x = complex(0, 0)\ny = 1e999j-1e999j\n",
    "f = lambda: 1e999-1e999\ng = lambda: 1e999-1e999\n", "x = 1; y = True; z = 1.0\n",
]


def fixed_cases(tier):
    out = [{"src": s, "mode": "exec", "optimize": 0, "min_version": 7, "_label": "nan_programs"} for s in NAN_PROGRAMS]
    out += [c for c in gen_source.example_cases() if c["_label"] != "repo_minimized"][:60]
    fams = gen_const._EQ_FAMILIES
    for fam in fams:
        for i in range(0, len(fam), 3):
            g = (fam[i:i + 3] + fam[:3])[:3]
            out.append({"group": g, "_label": "family_triples"})
    return out


def examples(tier):
    return 12000 if tier == "quick" else 200000


def wall_budget(tier):
    return 60.0 if tier == "quick" else 1200.0
