# C02 - decoded instructions, operands, jumps and lines match CPython's own reading
from checks import _prog

ID = "C02"
OP = "c02"
VERSIONS = _prog.VERSIONS
versions_for = _prog.versions_for_any
op_args = _prog.op_args
strategy = _prog.dense_strategy
fixed_cases = _prog.fixed_cases_dense
RULE = ("case = program compiled on each of 3.7-3.10; for every code object (nested included) the flattened blocks of "
        "from_code(c) are compared position by position with an independent scan of co_code (cross-checked with dis): opname, "
        "operand class and resolved value (names/locals/cells/frees/constants by typed key), jump kind and the block that "
        "starts at CPython's jump destination, line_number == PyCode_Addr2Line(first unit); the same comparison is then made for two look-alikes of c that compare equal under code.__eq__ (only the line table shifted, same file; and other file + shifted lines) decoded while c is alive; non-trivial = some code object "
        "has >=1 jump and >=2 distinct lines; distinct = sha1(case)+interpreter")
ASSUMPTIONS = _prog.PROG_ASSUMPTIONS
REQUIRED_CLASSES = ["jump_rel", "jump_backward", "extended_arg_on_jump", "cell_and_free", "noline_entry", "negative_line_delta"]


def examples(tier):
    return 3400 if tier == "quick" else 90000


def wall_budget(tier):
    return 70.0 if tier == "quick" else 1500.0
