# C10 - line-table codec agrees with CPython for everything its assembler can emit
from hypothesis import strategies as st

import gen_line
import gen_source
import gen_util
from checks import _prog

ID = "C10"
OP = None
VERSIONS = _prog.VERSIONS
RULE = ("case = (a) an abstract line program (1-12, thorough 1-40 instructions; unit counts and line deltas from the "
        "entry-splitting boundary sets 126..130/253..257/multiples; <=3.9: marked / re-marked / unmarked instructions and "
        "instructions deleted after assembly; 3.10: no-line instructions) emitted through M-LNOTAB / M-LINETABLE and carried "
        "by a NOP / wide-instruction code object; (b) a generated or corpus program compiled with its source lines "
        "RELABELLED by an arbitrary line map (drives the real assembler with arbitrary byte-gap / line-delta sequences); "
        "(c) plain generated programs and corpus files.  Oracle (native format): to_line_mapping == PyCode_Addr2Line on "
        "every code unit (cross-checked with co_lines / an lnotab reader), from_line_mapping(to_line_mapping) == table, "
        "from_code/to_code reproduces the table and instruction lines, each stage pair is a round trip; foreign format: "
        "the same through the stage functions against a pure-Python reference reader.  Model failures (R-LINE of the carrier "
        "!= intended mapping) are excluded and counted.  non-trivial = a table with a split entry, a zero-width entry or a "
        "no-line entry; distinct = sha1(case)+interpreter")
ASSUMPTIONS = _prog.PROG_ASSUMPTIONS + [
    "thorough tier: atheris 3.0 (libFuzzer) under python3-vt on code_data._line_mapping's stage functions, 16 campaigns of 25000 executions (-seed = VERIF_SEED*100+shard+1; even shards empty corpus, odd shards 4 small seed inputs); a libFuzzer campaign is pinned only approximately by its seed: the saved failing input is the reproducible unit and is re-verified through the worker path",
    "M-LNOTAB / M-LINETABLE (harness/linemodels.py) are transcriptions validated empirically: every real table met in a run is re-derived and re-emitted through the model (model_validated_real_tables vs model_mismatch_real_tables)",
    "a violation seen only on model-generated tables needs a real-compiler witness at triage (DESIGN.md section 4)"]
REQUIRED_CLASSES = ["split_line", "split_bytes", "zero_width", "noline_entry", "dline0", "negative_delta", "native_table",
                    "foreign_table", "relabelled_programs", "model_validated_real_tables"]


def versions_for(case):
    if "fmt" in case:
        return list(VERSIONS)
    return _prog.versions_for(case.get("case", case))


def run_case(ctx, case, versions):
    if "fmt" in case:
        a = {k: v for k, v in case.items() if k not in ("prog", "_from_fuzz_input")}
        return ctx.pool.call("c10_table", a, versions)
    if "linemap" in case:
        return ctx.pool.call("c10_relabel", {"case": _prog.op_args(case["case"])["case"], "linemap": case["linemap"]}, versions)
    return ctx.pool.call("c10_prog", _prog.op_args(case), versions)


@st.composite
def linemaps(draw):
    n = draw(st.integers(1, 30))
    line = draw(st.sampled_from([1, 1, 50, 1000]))
    out = []
    for _ in range(n):
        if draw(st.integers(0, 3)):
            line = max(1, line + draw(st.sampled_from(gen_line.DELTAS)))
        out.append(line)
    return out


def strategy(tier):
    big = tier == "thorough"
    tables = gen_line.line_programs(max_instr=40 if big else 12)
    progs = gen_source.programs(max_size=40 if big else 20, modes=("exec",), mix=(75, 5, 20))
    relabel = st.tuples(progs, linemaps()).map(lambda t: {"case": {k: v for k, v in t[0].items() if k != "_label"},
                                                          "linemap": t[1], "min_version": t[0].get("min_version", 7),
                                                          "_label": "relabel_" + t[0].get("_label", "")})
    return gen_util.weighted((4, tables), (2, relabel), (1, progs))


def _zero_width_tables():
    import linemodels
    out = []
    for fmt in ("lnotab37", "lnotab38", "lnotab39"):
        for d1 in (127, -128, 126, -127, 254, -256):
            for d2 in (255, -255, 256, -256, 257, -257, 381, -382, 128, -129, 127, -127, 1, -1):
                for extra in (0, 1):
                    first = 1000
                    prog = [(5, first, False), (1, first + d1, True)]
                    if extra:
                        prog.append((1, first + d1 + d2, True))
                        prog.append((3, first + d1 + d2 + d1, False))
                    else:
                        prog.append((3, first + d1 + d2, False))
                    table = linemodels.model_lnotab(prog, first, fmt[-2:])
                    if table is None:
                        continue
                    groups = []
                    for u, _l, d in prog:
                        if not d:
                            groups += [1] * u
                    out.append({"fmt": fmt, "table": table.hex(), "first": first, "groups": groups,
                                "intended": gen_line.intended_lnotab(prog, first), "aligned": True, "prog": [list(p) for p in prog],
                                "_label": "zero_width_pairs"})
    return out


def fixed_cases(tier):
    out = list(gen_source.example_cases()) + _zero_width_tables()
    # every example also relabelled with a few fixed boundary maps
    maps = [[1, 128, 1, 129, 2, 257, 3], [1000, 873, 872, 1127, 1128, 1], [1, 2, 3, 130, 131, 132], [5, 5, 5, 5], [300, 46, 45, 44]]
    for c in gen_source.example_cases()[:120:3]:
        for m in maps[:2]:
            out.append({"case": {k: v for k, v in c.items() if k != "_label"}, "linemap": m, "min_version": 7, "_label": "relabel_examples"})
    if tier == "thorough":
        for i in range(39, 1760):
            out.append({"corpus": i, "optimize": 0, "min_version": 7, "_label": "corpus_complete"})
            if i % 4 == 0:
                out.append({"case": {"corpus": i, "optimize": 0}, "linemap": maps[i % len(maps)], "min_version": 7, "_label": "relabel_corpus"})
    return out


def examples(tier):
    return 9000 if tier == "quick" else 200000


FUZZ_SEEDS = [bytes([3, 0, 3, 7, 0, 0, 0, 7, 4, 3, 0, 7, 5]), bytes([2, 1, 5, 0, 9, 8, 2, 1, 0, 9, 2, 3, 11, 4, 5]),
              bytes([3, 0, 4, 16, 0, 13, 0, 16, 1, 5, 0, 8, 2]), bytes([0, 0, 6, 4, 4, 9, 0, 17, 6, 2, 4, 12, 3, 3])]


def hypothesis_run(ctx):
    """generated cases, then (thorough only) the coverage-guided tier: an atheris campaign per shard on
    the stage functions; every saved failing input is decoded to a G-LINE table case and re-verified
    through the worker path on the real interpreters before it can become a violation"""
    import glob
    import os
    import shutil
    import subprocess
    import sys
    import runner
    runner.default_hypothesis_run(ctx)
    if ctx.tier != "thorough" or ctx.target is not None:
        return
    py = shutil.which("python3-vt") or "/opt/veriftools/pyvenv/bin/python"
    harness = os.path.dirname(os.path.abspath(runner.__file__))
    try:
        ok = subprocess.run([py, "-c", "import atheris"], stdout=subprocess.DEVNULL, stderr=subprocess.DEVNULL, timeout=60).returncode == 0
    except Exception:
        ok = False
    if not ok:
        ctx.extra["atheris"] = "not importable: coverage-guided tier skipped"
        return
    work = os.path.join(os.environ.get("VERIF_SCRATCH_DIR") or os.path.join(os.path.dirname(harness), ".scratch"), "fuzz_%d" % ctx.shard)
    corpus = os.path.join(work, "corpus")
    os.makedirs(corpus, exist_ok=True)
    seeded = ctx.shard % 2 == 1
    if seeded:
        for i, b in enumerate(FUZZ_SEEDS):
            with open(os.path.join(corpus, "seed%d" % i), "wb") as f:
                f.write(b)
    runs = 25000
    env = dict(os.environ, PYTHONPATH=os.path.join(harness, "shims") + os.pathsep + os.environ.get("VERIF_REPO", "/repo"), PYTHONHASHSEED="0")
    cmd = [py, os.path.join(harness, "fuzz_c10.py"), corpus, "-runs=%d" % runs, "-seed=%d" % (ctx.seed * 100 + ctx.shard + 1),
           "-artifact_prefix=" + work + "/", "-max_len=64", "-print_final_stats=1",
           # libFuzzer reads getrusage().ru_maxrss, which on Linux survives fork+exec: it would see the
           # (multi-GB) peak RSS of this long-running driver process and stop with a bogus out-of-memory
           "-rss_limit_mb=0"]
    try:
        p = subprocess.run(cmd, env=env, stdout=subprocess.PIPE, stderr=subprocess.STDOUT, timeout=1500, cwd=work)
        out = p.stdout.decode("utf-8", "replace")
    except subprocess.TimeoutExpired as e:
        out = (e.stdout or b"").decode("utf-8", "replace")
        ctx.extra["atheris_timeouts"] = ctx.extra.get("atheris_timeouts", 0) + 1
    done = 0
    for line in out.splitlines():
        if line.startswith("stat::number_of_executed_units:"):
            done = int(line.split(":")[-1])
    ctx.extra["atheris_executions"] = ctx.extra.get("atheris_executions", 0) + done
    if done < runs:
        # a campaign that ended early: keep its tail for the evidence file (diagnosis)
        ctx.extra["atheris_short_campaigns"] = ctx.extra.get("atheris_short_campaigns", 0) + 1
        ctx.extra["atheris_last_short_tail_shard%d" % ctx.shard] = out[-400:]
    ctx.extra["atheris_campaigns_seeded_corpus" if seeded else "atheris_campaigns_empty_corpus"] = 1
    sys.path.insert(0, harness)
    import fuzz_c10
    for extra in glob.glob(os.path.join(work, "oom-*")) + glob.glob(os.path.join(work, "timeout-*")):
        ctx.extra["atheris_oom_or_timeout_artifacts"] = ctx.extra.get("atheris_oom_or_timeout_artifacts", 0) + 1
    for crash in sorted(glob.glob(os.path.join(work, "crash-*"))):
        with open(crash, "rb") as f:
            data = f.read()
        case = fuzz_c10.decode(data)
        case["_from_fuzz_input"] = data.hex()
        ctx.extra["atheris_failing_inputs"] = ctx.extra.get("atheris_failing_inputs", 0) + 1
        ctx.evaluate(case, "atheris", in_hypothesis=False)
    shutil.rmtree(work, ignore_errors=True)


def wall_budget(tier):
    return 60.0 if tier == "quick" else 1500.0
