# Shared pieces for the checks that quantify over compiled programs.
import gen_source

ALL = ("3.7", "3.8", "3.9", "3.10")
VERSIONS = ALL


def versions_for(case):
    mv = case.get("min_version", 7) if isinstance(case, dict) else 7
    return [v for v in ALL if int(v.split(".")[1]) >= mv]


def op_args(case):
    if "spec" in case:
        return {"spec": case["spec"]}
    c = {k: v for k, v in case.items() if k not in ("min_version", "recipe", "poison")}
    a = {"case": c}
    if case.get("recipe"):
        a["recipe"] = case["recipe"]
    if case.get("poison"):
        a["poison"] = True
    return a


def versions_for_any(case):
    if "spec" in case:
        mv = case["spec"].get("min_version", 7)
        return [v for v in ALL if int(v.split(".")[1]) >= mv]
    return versions_for(case)


def dense_strategy(tier):
    """programs, R-ASM re-serializations of programs (redundant prefixes on jumps, permuted/padded
    tables) and encodings of hand-built CodeData (dense jump graphs)"""
    from hypothesis import strategies as st
    import gen_codedata
    from checks import c06
    progs = st.tuples(strategy(tier), st.integers(0, 3)).map(lambda t: dict(t[0], poison=True) if t[1] == 0 else t[0])
    variants = st.tuples(gen_source.programs(max_size=25, modes=("exec",), mix=(80, 0, 20)), c06.RECIPE).map(
        lambda t: dict(t[0], recipe=t[1], _label="rasm_variant"))
    built = gen_codedata.codedata_specs(big=False).map(lambda s: {"spec": s, "_label": "hand_built_encoding"})
    import gen_util
    return gen_util.weighted((6, progs), (2, variants), (2, built))


def strategy(tier, **kw):
    if tier == "thorough":
        return gen_source.programs(max_size=kw.pop("max_size", 60), **kw)
    return gen_source.programs(max_size=kw.pop("max_size", 30), **kw)


def fixed_cases_dense(tier):
    # C02 / C13: the quick tier also gets the two smallest programs with a 3-unit jump operand
    cases = fixed_cases(tier)
    # hand-built encodings whose jumps need a 3-unit operand (byte offset > 65535 on <=3.9,
    # instruction index > 65535 on 3.10)
    for n in (32800, 65600):
        cases.append({"spec": {"fn": None, "freevars": [], "first_line": 1, "stacksize": 1, "min_version": 7,
                               "blocks": [[["jabs", 2, 1, 0], ["jrel", 2, 1, 0]], [["FILL", "noarg", 0, n, 2]], [["jabs", 1, 3, 0], ["noarg", None, 3, 2]]]},
                      "_label": "hand_built_wide_jump"})
    cases += [dict(c, poison=True) for c in gen_source.example_cases()[:40:4]]
    return cases


def fixed_cases(tier):
    cases = list(gen_source.example_cases())
    if tier == "thorough":
        cases += gen_source.huge_cases()
        # the complete corpus (every file of each interpreter's stdlib)
        for i in range(39, 1760):
            cases.append({"corpus": i, "optimize": 0, "min_version": 7, "_label": "corpus_complete"})
    return cases


PROG_ASSUMPTIONS = [
    "oracle readers (harness/refs.py) use only opcode tables, dis, ctypes.pythonapi.PyCode_Addr2Line, co_lines of the running interpreter; they import nothing from code_data",
    "programs: own grammar generator + hypothesmith + each interpreter's own standard library + the repository's examples; compile() failures are rejects",
]
