# Shared pieces for the checks that quantify over compiled programs.
import gen_source

ALL = ("3.7", "3.8", "3.9", "3.10")
VERSIONS = ALL


def versions_for(case):
    mv = case.get("min_version", 7) if isinstance(case, dict) else 7
    return [v for v in ALL if int(v.split(".")[1]) >= mv]


def op_args(case):
    if "spec" in case:
        return {"spec": case["spec"]}
    c = {k: v for k, v in case.items() if k not in ("min_version", "recipe")}
    a = {"case": c}
    if case.get("recipe"):
        a["recipe"] = case["recipe"]
    return a


def versions_for_any(case):
    if "spec" in case:
        mv = case["spec"].get("min_version", 7)
        return [v for v in ALL if int(v.split(".")[1]) >= mv]
    return versions_for(case)


def dense_strategy(tier):
    """programs, R-ASM re-serializations of programs (redundant prefixes on jumps, permuted/padded
    tables) and encodings of hand-built CodeData (dense jump graphs)"""
    from hypothesis import strategies as st
    import gen_codedata
    from checks import c06
    progs = strategy(tier)
    variants = st.tuples(gen_source.programs(max_size=25, modes=("exec",), mix=(80, 0, 20)), c06.RECIPE).map(
        lambda t: dict(t[0], recipe=t[1], _label="rasm_variant"))
    built = gen_codedata.codedata_specs(big=False).map(lambda s: {"spec": s, "_label": "hand_built_encoding"})
    import gen_util
    return gen_util.weighted((6, progs), (2, variants), (2, built))


def strategy(tier, **kw):
    if tier == "thorough":
        return gen_source.programs(max_size=kw.pop("max_size", 60), **kw)
    return gen_source.programs(max_size=kw.pop("max_size", 30), **kw)


def fixed_cases(tier):
    cases = list(gen_source.example_cases())
    if tier == "thorough":
        cases += gen_source.huge_cases()
        # the complete corpus (every file of each interpreter's stdlib)
        for i in range(39, 1760):
            cases.append({"corpus": i, "optimize": 0, "min_version": 7, "_label": "corpus_complete"})
    return cases


PROG_ASSUMPTIONS = [
    "oracle readers (harness/refs.py) use only opcode tables, dis, ctypes.pythonapi.PyCode_Addr2Line, co_lines of the running interpreter; they import nothing from code_data",
    "programs: own grammar generator + hypothesmith + each interpreter's own standard library + the repository's examples; compile() failures are rejects",
]
