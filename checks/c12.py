# C12 - API calls are pure: no input mutation, repeatable, no shared mutable state
from hypothesis import strategies as st
from hypothesis.stateful import RuleBasedStateMachine, initialize, rule

import gen_json
from checks import _hist, _prog

ID = "C12"
OP = None
VERSIONS = _prog.VERSIONS
RULE = ("case = history: a generated program (constant-heavy / general / hand-altered code object) followed by up to 15 "
        "(thorough 30) API calls chosen by a Hypothesis RuleBasedStateMachine from {from_code again, to_code again, normalize "
        "again, to_json_data again, from_json_data again on the SAME dict object, from_json_data on a nested sub-document "
        "shared by two parents, mutate a returned JSON document at a generated path, mutate a document after loading it}, "
        "decode a look-alike code object (equal under code.__eq__; other file name, other stack size, both, or only another line table) and decode the original again}, each on the decoded or the normalized value; invariant after every step (evaluated in the worker): code object "
        "attributes unchanged (R-IDENT vs a marshal copy), JSON argument's canonical text unchanged, CodeData == untouched "
        "twin and same repr, n-th result == first result, nothing raises on the n-th call; evaluation = one step on one "
        "interpreter; non-trivial = history with >=1 repeated call on the same argument and a program that has a function "
        "with parameters or a tagged constant; distinct = sha1(program+steps)+interpreter")
ASSUMPTIONS = ["sessions live in the worker; each machine run opens fresh sessions, so Hypothesis' replays during shrinking start clean"]
REQUIRED_CLASSES = ["repeated_call", "mutations", "histories", "lookalike_decodes"]

PATHS = st.lists(st.integers(0, 40), min_size=0, max_size=7)
ARG = st.fixed_dictionaries({"norm": st.booleans()})
_ctx = None


def _nontrivial(sess, v):
    rules = [s[0] for s in sess.steps]
    repeated = len(rules) != len(set((r, str(a)) for r, a in sess.steps)) or any(r in ("from_json_nested",) for r in rules)
    return bool(repeated and sess.info.get(v, {}).get("interesting_program"))


class PureMachine(RuleBasedStateMachine):
    def __init__(self):
        super().__init__()
        self.sess = None

    @initialize(prog=gen_json.json_cases(max_size=12))
    def start(self, prog):
        prog = {k: v for k, v in prog.items() if k not in ("_label", "normalize")}
        self.sess = _hist.Session(_ctx, "c12", prog)

    @rule(arg=ARG)
    def from_code_again(self, arg):
        self.sess.step("from_code_again", arg)

    @rule(arg=ARG)
    def to_code_again(self, arg):
        self.sess.step("to_code_again", arg)

    @rule(arg=ARG)
    def normalize_again(self, arg):
        self.sess.step("normalize_again", arg)

    @rule(arg=ARG)
    def to_json_again(self, arg):
        self.sess.step("to_json_again", arg)

    @rule(arg=ARG)
    def from_json_again(self, arg):
        self.sess.step("from_json_again", arg)

    @rule(norm=st.booleans(), i=st.integers(0, 5))
    def from_json_nested(self, norm, i):
        self.sess.step("from_json_nested", {"norm": norm, "i": i})

    @rule(norm=st.booleans(), path=PATHS, action=st.integers(0, 3))
    def mutate_returned_json(self, norm, path, action):
        self.sess.step("mutate_returned_json", {"norm": norm, "path": path, "action": action})

    @rule(norm=st.booleans(), path=PATHS, action=st.integers(0, 3))
    def from_json_then_mutate(self, norm, path, action):
        self.sess.step("from_json_then_mutate", {"norm": norm, "path": path, "action": action})

    @rule(tag=st.integers(1, 4))
    def decode_lookalike(self, tag):
        self.sess.step("decode_lookalike", {"tag": tag})

    def teardown(self):
        if self.sess is not None:
            self.sess.close(_nontrivial)


def versions_for(case):
    return _prog.versions_for(case.get("prog", case))


def hypothesis_run(ctx):
    global _ctx
    _ctx = ctx
    n = 500 if ctx.tier == "quick" else 24000
    _hist.run_machine(ctx, PureMachine, n, 15 if ctx.tier == "quick" else 30)


FIXED = [
    "if c and p: break\n" if False else "for i in x:\n if c and p: break\n",
    "def f():\n try:\n  return 2\n finally:\n  return 3\n",
    "def f():\n return\n return\n",
    "def f(a, b=1, *c, d, **e):\n 'doc'\n return a\n",
    "x = (1, b'x', 2.5, ..., 1e999)\ndef g(p): return lambda q: p\n",
    "class A:\n def m(self, x): return [i for i in x]\n",
]
SCRIPT = [["from_json_again", {"norm": False}], ["from_json_again", {"norm": False}], ["from_json_again", {"norm": True}],
          ["from_json_again", {"norm": True}], ["to_json_again", {"norm": False}], ["to_json_again", {"norm": False}],
          ["from_json_nested", {"norm": False, "i": 1}], ["from_json_nested", {"norm": False, "i": 1}],
          ["mutate_returned_json", {"norm": False, "path": [0, 0, 0], "action": 0}], ["to_json_again", {"norm": False}],
          ["to_code_again", {"norm": False}], ["to_code_again", {"norm": False}], ["normalize_again", {"norm": False}],
          ["normalize_again", {"norm": False}], ["from_code_again", {}], ["from_code_again", {}],
          ["from_json_then_mutate", {"norm": False, "path": [3, 1], "action": 2}], ["decode_lookalike", {"tag": 1}],
          ["from_code_again", {}], ["decode_lookalike", {"tag": 2}], ["decode_lookalike", {"tag": 4}], ["from_code_again", {}],
          ["decode_lookalike", {"tag": 3}]]


def fixed_cases(tier):
    out = [{"prog": {"src": s, "mode": "exec", "optimize": 0, "min_version": 7}, "steps": SCRIPT} for s in FIXED]
    # hand-altered code objects: a surrogate string in every place a name can occur
    for kind in ("argname", "varnames", "names", "freevar_name", "kwonly_name", "co_name", "filename", "docstring", "global_name"):
        out.append({"prog": {"alter": {"kind": kind, "value": "n\udc80"}, "min_version": 7}, "steps": SCRIPT})
    for val in (["int", str(2 ** 53)], ["tuple", [["int", str(-(2 ** 70))], ["float", "7ff8000000000000"]]], ["fset", [["bytes", "00"], ["ell"]]]):
        out.append({"prog": {"alter": {"kind": "operand", "value": val}, "min_version": 7}, "steps": SCRIPT})
    return out


def run_case(ctx, case, versions):
    """fixed scripted histories (and replay): returns the merged per-version result"""
    global _ctx
    _ctx = ctx
    sess = _hist.Session(ctx, "c12", case["prog"])
    for r, a in case["steps"]:
        sess.step(r, a, in_hypothesis=False)
    sess.close(_nontrivial)
    return {}


def replay(ctx, rec):
    return _hist.replay(ctx, rec, "c12", _nontrivial)


def wall_budget(tier):
    return 60.0 if tier == "quick" else 1200.0
