# C16 - the command line prints what the API returns for the same program
import itertools

from hypothesis import strategies as st

import gen_source
from checks import _prog

ID = "C16"
OP = None
VERSIONS = _prog.VERSIONS
RULE = ("case = (generated program) x source option {file, -c, -e, -m (generated module on a scratch sys.path entry)} x subset "
        "of {--dis, --dis-after, --source, --no-normalize, --json}, and invalid argument sets (zero sources; every combination "
        "of two or more sources); code_data._cli.main() is run on each interpreter with the plain-print fallback console, "
        "in-process (patched sys.argv, captured stdout/stderr, SystemExit caught) and for ~10% of cases (thorough: also all "
        "invalid sets) as a real subprocess; oracle: invalid -> exit status 2 and empty stdout; valid -> exit 0, one output "
        "line is repr(API result for the same source text) (normalized unless --no-normalize; compared textually, then by "
        "value), text before it is the source echo + the harness's own show_code/dis rendering, with --json the JSON text "
        "parses and from_json_data gives that same value, with --dis-after the text is the disassembly of the API result's "
        "to_code() and lists the same instructions as --dis; non-trivial = valid invocation with >=2 flags, or an invalid "
        "set; distinct = sha1(case)+interpreter")
ASSUMPTIONS = ["rich is not installed on the target interpreters: only the plain-print fallback console is exercised",
               "the harness applies the documented transformation of each source option (-c: \\\\n -> newline; -e: eval with linesep) to obtain the program text"]
REQUIRED_CLASSES = ["attached_option_value", "e_style_2", "how_file", "how_c", "how_e", "how_m", "flag_--json", "flag_--dis", "flag_--dis-after", "flag_--no-normalize",
                    "flag_--source", "invalid_sets", "subprocess_runs"]
FLAGS = ["--dis", "--dis-after", "--source", "--no-normalize", "--json"]
SOURCES = ["file", "c", "e", "m"]


def versions_for(case):
    mv = case.get("min_version", 7)
    return [v for v in VERSIONS if int(v.split(".")[1]) >= mv]


def run_case(ctx, case, versions):
    if "sources" in case:
        return ctx.pool.call("c16_invalid", {k: v for k, v in case.items() if k != "min_version"}, versions, budget=180)
    return ctx.pool.call("c16", {k: v for k, v in case.items() if k != "min_version"}, versions, budget=180)


@st.composite
def cli_cases(draw, max_size=12):
    if draw(st.integers(0, 9)) == 0:
        n = draw(st.sampled_from([0, 2, 2, 2, 3, 4]))
        srcs = draw(st.permutations(SOURCES))[:n]
        return {"sources": sorted(srcs), "flags": draw(st.lists(st.sampled_from(FLAGS), unique=True, max_size=3)),
                "c_text": draw(st.sampled_from(["x = 1", "", "pass"])), "e_text": draw(st.sampled_from(["'x = 1'", "''"])),
                "subprocess": draw(st.integers(0, 9)) == 0, "_label": "invalid_sets"}
    prog = draw(gen_source.grammar_programs(max_size=max_size))
    flags = draw(st.lists(st.sampled_from(FLAGS), unique=True, max_size=5))
    return {"src": prog["src"], "how": draw(st.sampled_from(SOURCES)), "flags": sorted(flags), "min_version": prog.get("min_version", 7),
            "subprocess": draw(st.integers(0, 9)) == 0, "attached": draw(st.integers(0, 4)) == 0, "e_style": draw(st.integers(0, 2)),
            "_label": "cli_valid"}


def strategy(tier):
    return cli_cases(max_size=12 if tier == "quick" else 30)


def fixed_cases(tier):
    out = []
    progs = ["x = 1\n", "", "\n", "def f(a, *b, c=1):\n    'doc'\n    return [i for i in a if i]\n", "x = (1e999, -0.0, b'b', ..., 2**70)\ny = 'a' in {'a', 'b'}\n",
             "if x:\n " + "x=1;" * 70 + "\ny = 2\n", "x = 'caf\u00e9'\n", "x = '\\n'\n",
             'text = """first\n    \nlast"""\n', "def f():\n    \'\'\'doc\n\t\n    end\'\'\'\n", "para = 'one \u2028two'\nq = 'a\x85b\u2029'\n"]
    for s in progs:
        for how in SOURCES:
            for fl in ([], ["--json"], ["--no-normalize"], ["--json", "--no-normalize"], ["--dis", "--dis-after"], FLAGS,
                       ["--dis", "--dis-after", "--no-normalize"], ["--source"]):
                out.append({"src": s, "how": how, "flags": sorted(fl), "min_version": 7, "subprocess": False, "_label": "cli_fixed"})
    for how in ("c", "e", "m"):
        for style in (0, 1, 2):
            out.append({"src": "x = 1\ny = x\n", "how": how, "flags": [], "min_version": 7, "subprocess": False, "attached": True,
                        "e_style": style, "_label": "cli_fixed"})
            out.append({"src": "x = 1\ny = x\n", "how": how, "flags": ["--json"], "min_version": 7, "subprocess": False, "attached": False,
                        "e_style": style, "_label": "cli_fixed"})
    out.append({"src": "x = 1\n", "how": "file", "flags": ["--json"], "min_version": 7, "subprocess": True, "_label": "cli_fixed"})
    # the shared example programs (the repository's own examples and the override-carrying shapes: redundant line
    # entries, out-of-order tables, unused entries, wide operands): what --json prints must load back to the
    # un-normalized / normalized API value for those too
    seen = set(progs)
    for c in gen_source.example_cases():
        s = c.get("src")
        if s is None or c.get("mode", "exec") != "exec" or c.get("optimize", 0) != 0 or s in seen or len(s) > 4000:
            continue
        seen.add(s)
        for fl in (["--json", "--no-normalize"], ["--json"]):
            out.append({"src": s, "how": "file", "flags": fl, "min_version": c.get("min_version", 7), "subprocess": False,
                        "_label": "cli_examples"})
    out.append({"src": "x = 1\n", "how": "m", "flags": [], "min_version": 7, "subprocess": True, "_label": "cli_fixed"})
    for n in (0, 2, 3, 4):
        for combo in itertools.combinations(SOURCES, n):
            out.append({"sources": list(combo), "flags": [], "subprocess": tier == "thorough", "_label": "invalid_sets"})
            out.append({"sources": list(combo), "flags": ["--json"], "c_text": "", "e_text": "''", "subprocess": False, "_label": "invalid_sets"})
    return out


def examples(tier):
    return 1600 if tier == "quick" else 40000


def wall_budget(tier):
    return 60.0 if tier == "quick" else 1500.0
