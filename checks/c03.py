# C03 - encoding any well-formed CodeData yields code that says what the data says
from hypothesis import strategies as st

import gen_codedata
import gen_source
import gen_util
from checks import _prog

ID = "C03"
OP = None
VERSIONS = _prog.VERSIONS
RULE = ("case (a) = hand-built CodeData spec (own notation, built in the worker with the dataclass constructors, no private "
        "override field set): 1-8 (thorough up to 300) blocks, block sizes and FILL runs straddling the 1/2/3-byte operand "
        "boundaries, absolute jumps in both directions, forward relative jumps, tables from 0 to >65k entries, "
        "per-instruction lines with boundary deltas and None, every signature shape, merge-prone constants, nested specs; "
        "oracle on cd.to_code() read back with an independent scanner (cross-checked with dis), PyCode_Addr2Line and the "
        "header: opnames, every jump lands on the first unit of its target block, every table operand resolves to the given "
        "name/constant (typed key) inside its table, line at first and opcode unit, header fields/flags/docstring slot, and "
        "from_code(code).normalize() == cd.normalize() on the flattened stream; case (b) = decoded data with one generated "
        "edit (drop an instruction / the additional args, clear or change one override, duplicate an instruction, a lone "
        "dangling override): to_code() raises, or every table operand resolves inside its table to what the operand names; "
        "non-trivial = >=2 blocks with a jump needing >=2 operand bytes, or a table >256 entries, or merge-prone constants, "
        "or |line delta| > 127, or an edit; distinct = sha1(case)+interpreter")
ASSUMPTIONS = ["well-formedness is by construction: >=1 block, no empty block, jump targets in range, relative jumps forward, opcode chosen on the worker from the class the operand belongs to",
               "stack-effect validity is not required (the code is read, never executed)",
               "on <=3.9 a None line cannot be expressed by the format: only termination without exception is required for it"]
REQUIRED_CLASSES = ["wide_jump", "table_gt256", "merge_prone_constants", "line_delta_gt127", "none_lines", "edit_to_code_raised",
                    "edit_to_code_returned", "posonly_refused_on_37", "edit_colliding_overrides"]
EDITS = ["drop_instruction", "drop_additional_args", "clear_override", "change_override", "duplicate_instruction", "lone_override",
         "colliding_overrides"]


def versions_for(case):
    if "spec" in case:
        # specs with positional-only parameters also go to 3.7: there to_code() must refuse them
        return list(VERSIONS)
    mv = case.get("case", {}).get("min_version", 7) if isinstance(case, dict) else 7
    return [v for v in VERSIONS if int(v.split(".")[1]) >= mv]


def run_case(ctx, case, versions):
    if "spec" in case:
        return ctx.pool.call("c03", {"spec": case["spec"]}, versions, budget=120)
    return ctx.pool.call("c03_edit", {"case": _prog.op_args(case["case"])["case"], "edit": case["edit"], "pick": case.get("pick", 0)}, versions)


def strategy(tier):
    specs = gen_codedata.codedata_specs(big=(tier == "thorough")).map(lambda s: {"spec": s, "_label": "hand_built"})
    progs = gen_source.programs(max_size=15, modes=("exec",), mix=(70, 0, 30))
    edits = st.tuples(progs, st.sampled_from(EDITS), st.integers(0, 200), st.integers(0, 300), st.integers(0, 9)).map(
        lambda t: {"case": {k: v for k, v in t[0].items() if k != "_label"}, "edit": {"kind": t[1], "k": t[2], "to": t[3]},
                   "pick": t[4], "_label": "override_edits"})
    return gen_util.weighted((3, specs), (1, edits))


def fixed_cases(tier):
    out = [{"spec": s, "_label": "fixed_specs"} for s in gen_codedata.FIXED_SPECS + gen_codedata.cascade_specs()]
    for src in ["x = 1\n", "def f(a):\n return a.b + 1\n", "def f():\n return\n x = 'dead'\n",
                "def outer(y):\n    def inner(x):\n        if 0:\n            g = lambda: x\n        return y\n    return inner\n",
                "def outer(y):\n    def inner(x):\n        return\n        g = lambda: x\n        return y\n    z = y\n    return inner, z\n"]:
        for e in EDITS:
            for k in (0, 1, 2, 3):
                out.append({"case": {"src": src, "mode": "exec", "optimize": 0, "min_version": 7}, "edit": {"kind": e, "k": k, "to": 5}, "pick": k, "_label": "override_edits"})
    if tier == "thorough":
        out += [{"spec": s, "_label": "huge_specs"} for s in gen_codedata.huge_specs()]
    return out


def examples(tier):
    return 9000 if tier == "quick" else 110000


def wall_budget(tier):
    return 60.0 if tier == "quick" else 1500.0
