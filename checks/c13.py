# C13 - blocks are exactly the jump-target partition of the instruction sequence
from checks import _prog

ID = "C13"
OP = "c13"
VERSIONS = _prog.VERSIONS
versions_for = _prog.versions_for_any
op_args = _prog.op_args
strategy = _prog.dense_strategy
fixed_cases = _prog.fixed_cases_dense
RULE = ("case = program compiled on each of 3.7-3.10 (plus, in ops_build, re-decoded hand-built block graphs); for every code "
        "object T = {0} + every jump destination computed from the raw bytes; the blocks must concatenate to the instruction "
        "sequence, none empty, block starts == T exactly, every Jump.target in range and every block after the first targeted; "
        "non-trivial = a code object with >=3 blocks; distinct = sha1(case)+interpreter")
ASSUMPTIONS = _prog.PROG_ASSUMPTIONS
REQUIRED_CLASSES = ["jump_to_prefixed_instruction", "shared_jump_target"]


def examples(tier):
    return 4000 if tier == "quick" else 100000


def wall_budget(tier):
    return 60.0 if tier == "quick" else 1200.0
