# C04 - function signature, docstring and kind agree with CPython's calling convention
from hypothesis import strategies as st

import gen_misc
import gen_util
from checks import _prog

ID = "C04"
OP = "c04"
VERSIONS = _prog.VERSIONS
versions_for = _prog.versions_for
op_args = _prog.op_args
RULE = ("case = source with a function-like scope: signature shape (0-3 positional-only [>=3.8], 0-3 positional-or-keyword, "
        "*args or bare *, 0-3 keyword-only, **kwargs, defaults) x {def, lambda, async def, generator, async generator, "
        "4 comprehension kinds, class body, module} x 8 docstring shapes x captured/extra locals, plus every function-like "
        "code object of general generated programs and the corpus; oracle = inspect.signature / __doc__ / "
        "inspect.is*function of types.FunctionType(code) and an independent header reading; non-trivial = function-like "
        "code object with >=2 parameter kinds, a docstring, or a non-plain kind; distinct = sha1(case)+interpreter")
ASSUMPTIONS = _prog.PROG_ASSUMPTIONS + [
    "for the implicit `.0` parameter of comprehensions inspect renames/re-kinds the parameter; there the header reading is the oracle"]
REQUIRED_CLASSES = ["param_POSITIONAL_ONLY", "param_VAR_POSITIONAL", "param_KEYWORD_ONLY", "param_VAR_KEYWORD",
                    "kind_GENERATOR", "kind_COROUTINE", "kind_ASYNC_GENERATOR", "has_docstring", "implicit_dot_param",
                    "non_function"]


def strategy(tier):
    general = _prog.strategy(tier)
    shapes = gen_misc.c04_cases()
    return gen_util.weighted((3, shapes), (1, general))


def fixed_cases(tier):
    cases = _prog.fixed_cases("quick")
    if tier == "thorough":
        cases = cases + list(gen_misc.c04_product())
        for i in range(39, 1760, 3):
            cases.append({"corpus": i, "optimize": 0, "min_version": 7, "_label": "corpus_sample"})
    return cases


def coverage_extra(tier, cov):
    if tier == "thorough":
        return {"exhaustive_subdomain": "signature-shape product 4x4x2x4x2 x 5 function kinds x 8 docstring shapes + 6 "
                "parameterless kinds x 8 docstring shapes enumerated completely on each interpreter (labelled c04_product)"}
    return {}


def examples(tier):
    return 5000 if tier == "quick" else 240000


def wall_budget(tier):
    return 60.0 if tier == "quick" else 1200.0
