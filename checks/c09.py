# C09 - decoded data carries no redundant override information
from hypothesis import strategies as st

import gen_source
from checks import _prog

ID = "C09"
OP = "c09"
VERSIONS = _prog.VERSIONS
versions_for = _prog.versions_for
RULE = ("case = program (grammar / hypothesmith / corpus, corpus up-weighted because real code has tables far from "
        "first-use order) compiled on each of 3.7-3.10, also its canonical re-encoding from_code(c).normalize().to_code(); "
        "oracle = first-use ranks computed by the harness from the raw bytes (parameters and docstring slot first): an "
        "_index_override is a violation iff position == rank AND re-encoding with the override cleared on all uses gives "
        "the identical code object; _additional_args must be exactly the unreferenced entries per table; code objects in "
        "first-use order with nothing unreferenced must decode with no override at all; non-trivial = a code object with a "
        "table of >=3 entries; distinct = sha1(case)+interpreter")
ASSUMPTIONS = _prog.PROG_ASSUMPTIONS
REQUIRED_CLASSES = ["codeobj_with_justified_override", "codeobj_first_use_order", "codeobj_with_unreferenced", "canonical_input"]


def op_args(case):
    c = {k: v for k, v in case.items() if k not in ("min_version", "canonical")}
    return {"case": c, "canonical": bool(case.get("canonical"))}


def strategy(tier):
    base = gen_source.programs(max_size=30 if tier == "quick" else 60, mix=(60, 5, 35))
    return st.tuples(base, st.integers(0, 3)).map(lambda t: dict(t[0], canonical=True) if t[1] == 0 else t[0])


def fixed_cases(tier):
    out = []
    for c in _prog.fixed_cases(tier):
        out.append(c)
        if c.get("_label") in ("examples", "repo_minimized"):
            out.append(dict(c, canonical=True))
    return out


def examples(tier):
    return 4000 if tier == "quick" else 120000


def wall_budget(tier):
    return 70.0 if tier == "quick" else 1500.0
