# C11 - flags convert without loss and nothing unrepresentable is silently dropped
import itertools

from hypothesis import strategies as st

import gen_misc
import gen_util

ID = "C11"
OP = None
VERSIONS = ("3.7", "3.8", "3.9", "3.10")
RULE = ("case (a) = a batch of flag words: subsets of the 18 flag bits known to the interpreter (quick: generated; thorough: "
        "ALL 2^18 subsets per interpreter), every single unknown bit 0-63, unknown bit + known subset; oracle: known-only "
        "word f -> to_flags_data(f) names exactly the set bits (names from dis.COMPILER_FLAG_NAMES/__future__ read by the "
        "harness) and from_flags_data gives f back; any unknown bit -> to_flags_data must raise, and must still raise after `from_flags_data(...) | bit` arithmetic on a returned value; case (b) = header "
        "alteration (xor/or of bits 0-31 into co_flags, +-delta on argument counts / nlocals) of a family of base code "
        "objects: from_code raises, or to_code() reproduces co_flags and 12 other header fields exactly; non-trivial = "
        "batch containing a word with >=2 bits or an unknown bit, or an alteration the constructor accepted; distinct = "
        "sha1(case)+interpreter; evaluations counts batches/alterations, coverage.flag_words counts words")
ASSUMPTIONS = ["known flag bits are read by the harness from dis.COMPILER_FLAG_NAMES and __future__ of each interpreter (18 bits on each of 3.7-3.10)",
               "base code family: functions of every parameter kind, closure, generator, coroutine, async generator, class body, comprehension, lambda"]
REQUIRED_CLASSES = ["word_known_only", "word_with_unknown_bit", "alteration_accepted", "header_reproduced_checked", "from_code_raised",
                    "via_parent", "altered_co_stacksize", "altered_co_filename"]

BITS37 = [1, 2, 4, 8, 16, 32, 64, 128, 256, 512] + [0x2000 << i for i in range(8)]
BITS38 = [1, 2, 4, 8, 16, 32, 64, 128, 256, 512] + [0x20000 << i for i in range(8)]


def versions_for(case):
    if "only" in case:
        return [case["only"]]
    return list(VERSIONS)


def run_case(ctx, case, versions):
    if "words" in case:
        res = ctx.pool.call("c11_flags", {"words": case["words"]}, versions)
        for v, r in res.items():
            ctx.extra["flag_words"] = ctx.extra.get("flag_words", 0) + (r.get("features") or {}).get("words", 0)
        return res
    if "enum" in case:
        # complete enumeration slice: words = all subsets with the given fixed high part
        bits = BITS37 if case["only"] == "3.7" else BITS38
        lo, hi = case["enum"]
        words = []
        for idx in range(lo, hi):
            w = 0
            for j, b in enumerate(bits):
                if idx >> j & 1:
                    w |= b
            words.append(w)
        # IntFlag caches a pseudo-member for every composite value it has seen, and enum._decompose
        # scans that cache: in one long-lived process the enumeration becomes quadratic (measured on
        # 3.7: 1 ms/word at the start, 6.6 ms/word after 260k words).  Each slice therefore starts in
        # a fresh worker process; the generated (non-enumerated) batches keep the long-lived worker,
        # so state that leaks between conversions stays observable there.
        for v in versions:
            if v in ctx.pool.workers:
                ctx.pool.workers[v].restart()
        res = ctx.pool.call("c11_flags", {"words": words}, versions, budget=600)
        for v, r in res.items():
            ctx.extra["flag_words"] = ctx.extra.get("flag_words", 0) + (r.get("features") or {}).get("words", 0)
            ctx.extra["enumerated_words_" + v] = ctx.extra.get("enumerated_words_" + v, 0) + (r.get("features") or {}).get("word_known_only", 0)
        return res
    return ctx.pool.call("c11_header", case["alter"], versions)


def strategy(tier):
    w37 = gen_misc.flag_word_batches(BITS37).map(lambda w: {"words": w, "only": "3.7", "_label": "flag_words"})
    w38 = gen_misc.flag_word_batches(BITS38).map(lambda w: {"words": w, "_label": "flag_words"})
    hdr = gen_misc.header_alterations().map(lambda a: {"alter": a, "_label": "header_alterations"})
    return gen_util.weighted((1, w37), (2, w38), (3, hdr))


def fixed_cases(tier):
    out = []
    # every single bit 0..63, alone
    out.append({"words": [1 << i for i in range(64)], "_label": "single_bits"})
    out.append({"words": [0, 3, 0x43, 0x63, 0x20 | 0x40 | 3, 0x2003], "_label": "flag_words"})
    for t in range(20):
        for bit in range(32):
            out.append({"alter": {"target": t, "flags_xor": 1 << bit}, "_label": "header_single_bit"})
        # function flags cleared together (a function turned into non-function code), each star flag alone
        for x in (3, 3 | 4, 3 | 8, 4, 8, 12, 0x20, 0x80, 0x200, 0x20 | 3, 0x80 | 3, 0x200 | 3):
            out.append({"alter": {"target": t, "flags_xor": x}, "_label": "header_flag_groups"})
        for via in (False, True):
            out.append({"alter": {"target": t, "stacksize_d": 7, "via_parent": via}, "_label": "header_fields"})
            out.append({"alter": {"target": t, "filename": "second.py", "via_parent": via}, "_label": "header_fields"})
            out.append({"alter": {"target": t, "stacksize_d": 3, "filename": "third.py", "via_parent": via}, "_label": "header_fields"})
    if tier == "thorough":
        step = 2048
        for v in VERSIONS:
            for lo in range(0, 1 << 18, step):
                out.append({"enum": [lo, lo + step], "only": v, "_label": "flag_enumeration"})
    return out


def coverage_extra(tier, cov):
    if tier == "thorough":
        return {"exhaustive": True,
                "exhaustive_subdomain": "all 2^18 subsets of the known flag bits on each interpreter (labelled flag_enumeration; see enumerated_words_<version>); header alterations are sampled"}
    return {}


def examples(tier):
    return 24000 if tier == "quick" else 80000


def wall_budget(tier):
    return 50.0 if tier == "quick" else 1500.0
