# C05 - normalization preserves the meaning of the code
from hypothesis import strategies as st

import gen_source
import gen_util
from checks import _prog

ID = "C05"
OP = None
VERSIONS = _prog.VERSIONS
versions_for = _prog.versions_for
RULE = ("case (a) = generated / corpus program compiled on each of 3.7-3.10: n = from_code(c).normalize().to_code() must have "
        "the same symbolic reading as c (R-SYM: opnames, resolved operands, jump structure as instruction indices, line at "
        "the first and opcode unit of every instruction, name/filename/firstlineno/stacksize/argument counts/parameters/"
        "freevars/docstring, recursively), flags differing at most in CO_NESTED and (only when an unused cell variable "
        "disappeared and no cell/free is left) CO_NOFREE; non-trivial (a) = normalization changed at least one raw field; "
        "case (b) = closed, terminating-by-construction program (exec-safe grammar subset with a prelude) executed as c and "
        "as n in fresh globals under sys.settrace with captured stdout, SIGALRM budget and lowered recursion limit: equal "
        "stdout, final globals, exception type/args/traceback lines and trace-event sequence; non-trivial (b) = >=5 line "
        "events in >=2 code objects; distinct = sha1(case)+interpreter")
ASSUMPTIONS = _prog.PROG_ASSUMPTIONS + ["behaviour is compared only on the exec-safe subset; a time-budget overrun is inconclusive, never a violation"]
REQUIRED_CLASSES = ["executed_programs", "line_events", "has_extended_arg", "unref_const", "unref_cell"]
CRASH_IS_VIOLATION = False


def run_case(ctx, case, versions):
    if case.get("exec"):
        a = {"case": {k: v for k, v in case.items() if k not in ("min_version", "exec")}}
        return ctx.pool.call("c05_exec", a, versions, budget=12, retry_factor=1)
    return ctx.pool.call("c05", _prog.op_args(case), versions)


def strategy(tier):
    general = _prog.strategy(tier)
    safe = gen_source.grammar_programs(max_size=25 if tier == "quick" else 45, exec_safe=True).map(
        lambda c: dict(c, exec=True, _label="exec_safe", optimize=0, mode="exec"))
    return gen_util.weighted((2, general), (1, safe))


EXEC_FIXED = [
    "def h(n):\n    if n:\n        return h(n - 1) + 1\n    return 0\nprint(h(5))\nfor i in a:\n    print(i, x)\n",
    "class A:\n    'doc'\n    def m(self, q):\n        return [i * q for i in a]\nprint(A().m(2))\n",
    "def k(p, *r, s=1, **t):\n    def inner():\n        return p, r, s\n    return inner\nprint(k(1, 2, s=3)())\ntry:\n    raise E('boom')\nexcept E as e:\n    print(e)\nfinally:\n    print('done')\n",
    "def d():\n    return\n    def unused():\n        return d\nprint(d())\nz = 'a' in {'a', 'b'}\nprint(z, -0.0, 1e999, (0.0, -0.0))\n",
]


def fixed_cases(tier):
    out = _prog.fixed_cases(tier)
    out += [{"src": s, "mode": "exec", "optimize": 0, "min_version": 7, "exec": True, "_label": "exec_fixed"} for s in EXEC_FIXED]
    # the jump-width cascade family, symbolically and executed
    for s in gen_source.many_cells_sources():
        out.append({"src": s, "mode": "exec", "optimize": 0, "min_version": 7, "exec": True, "_label": "many_cells_exec"})
    for i, s in enumerate(gen_source.jump_cascade_sources()):
        out.append({"src": s, "mode": "exec", "optimize": 0, "min_version": 7, "_label": "jump_cascade"})
        if i % 2 == 0:
            out.append({"src": s + "print(out)\n", "mode": "exec", "optimize": 0, "min_version": 7, "exec": True, "_label": "jump_cascade_exec"})
    return out


def examples(tier):
    return 3600 if tier == "quick" else 90000


def wall_budget(tier):
    return 60.0 if tier == "quick" else 1500.0
