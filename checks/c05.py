# C05 - normalization preserves the meaning of the code
from checks import _prog

ID = "C05"
OP = "c05"
VERSIONS = _prog.VERSIONS
versions_for = _prog.versions_for
op_args = _prog.op_args
strategy = _prog.strategy
fixed_cases = _prog.fixed_cases
RULE = "see c05.py"
ASSUMPTIONS = _prog.PROG_ASSUMPTIONS


def examples(tier):
    return 3000 if tier == "quick" else 40000


def wall_budget(tier):
    return 70.0 if tier == "quick" else 1500.0
