# C14 - iteration enumerates every nested code object
from checks import _prog

ID = "C14"
OP = "c14"
VERSIONS = _prog.VERSIONS
versions_for = _prog.versions_for
op_args = _prog.op_args
strategy = _prog.strategy
fixed_cases = _prog.fixed_cases
RULE = ("case = program compiled on each of 3.7-3.10 (dead-code shapes up-weighted: code after return, `if 0:` bodies with "
        "defs); oracle = recursive walk of co_consts: list(cd) must equal, as a multiset under ==, the decodes of the direct "
        "nested code objects of every code object, list(cd.all_code_data()) must start with cd and equal the decodes of the "
        "whole walk; non-trivial = >=2 nested code objects with one at depth >=2, or >=1 nested code object no instruction "
        "references; distinct = sha1(case)+interpreter")
ASSUMPTIONS = _prog.PROG_ASSUMPTIONS
REQUIRED_CLASSES = ["unref_nested_code", "has_nested"]


def examples(tier):
    return 4000 if tier == "quick" else 70000


def wall_budget(tier):
    return 60.0 if tier == "quick" else 1200.0
